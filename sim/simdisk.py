"""Simulated disk behind pyglove.core.io.file_system's `io` and `os` seams.

A POSIX-like tree: directories, files holding bytes.  Every open handle has a
user-space buffer (lost on process crash); the "kernel" holds what was flushed
or closed (survives process crash; pyglove never fsyncs, power loss is out of
scope).  Faults: EIO at the n-th disk call, ENOSPC after a byte budget with a
short write, process crash with un-flushed buffers.
"""
import errno
import os as _real_os
import posixpath
import types


class SimDisk:
    def __init__(self, root='/simdisk', buffer_size=64, byte_budget=None,
                 eio_at=(), short_writes=True):
        self.root = root
        self.dirs = {'/', root}
        self.files = {}            # path -> bytearray (kernel state)
        self.buffer_size = buffer_size
        self.byte_budget = byte_budget
        self.eio_at = set(eio_at)
        self.calls = 0
        self.handles = []
        self.fired = {}
        self.epoch = 0             # incremented by process crash
        self.short_writes = short_writes

    # -- fault points -------------------------------------------------------

    def _call(self, kind):
        self.calls += 1
        if self.calls in self.eio_at:
            self.fired[f'io_error_{kind}'] = self.fired.get(f'io_error_{kind}', 0) + 1
            raise OSError(errno.EIO, f'simulated I/O error in {kind} (disk call {self.calls})')

    def used(self):
        return sum(len(b) for b in self.files.values())

    def _commit(self, path, data, kind):
        """Append `data` to the kernel copy; may hit ENOSPC with a short write."""
        if path not in self.files:
            # file was removed while open: writes go nowhere visible
            return
        if self.byte_budget is not None and self.used() + len(data) > self.byte_budget:
            room = max(0, self.byte_budget - self.used())
            if self.short_writes and room:
                self.files[path] += data[:room]
                self.fired['short_write'] = self.fired.get('short_write', 0) + 1
            self.fired['disk_full'] = self.fired.get('disk_full', 0) + 1
            raise OSError(errno.ENOSPC, f'simulated disk full in {kind}')
        self.files[path] += data

    def crash(self):
        """Process crash: user-space buffers vanish, kernel state survives."""
        lost = 0
        for h in self.handles:
            if not h.closed:
                if h.buf:
                    lost += 1
                h.buf = bytearray()
                h.dead = True
                h.closed = True
        self.handles = []
        self.epoch += 1
        if lost:
            self.fired['process_crash_unflushed'] = self.fired.get('process_crash_unflushed', 0) + 1
        self.fired['process_crash'] = self.fired.get('process_crash', 0) + 1
        return lost

    # -- the io / os namespaces ---------------------------------------------------

    def io_open(self, path, mode='r', **kwargs):
        path = _real_os.fspath(path)
        self._call('open')
        binary = 'b' in mode
        parent = posixpath.dirname(path)
        if path in self.dirs:
            raise IsADirectoryError(errno.EISDIR, 'Is a directory', path)
        if 'r' in mode and '+' not in mode:
            if path not in self.files:
                raise FileNotFoundError(errno.ENOENT, 'No such file or directory', path)
        else:
            if parent not in self.dirs:
                raise FileNotFoundError(errno.ENOENT, 'No such file or directory', path)
            if 'w' in mode:
                self.files[path] = bytearray()
            elif 'a' in mode:
                self.files.setdefault(path, bytearray())
            elif 'x' in mode:
                if path in self.files:
                    raise FileExistsError(errno.EEXIST, 'File exists', path)
                self.files[path] = bytearray()
        h = SimFile(self, path, mode, binary)
        self.handles.append(h)
        return h

    def make_io(self, real_io):
        ns = types.SimpleNamespace()
        for k in dir(real_io):
            if not k.startswith('__'):
                setattr(ns, k, getattr(real_io, k))
        ns.open = self.io_open
        return ns

    def make_os(self):
        disk = self
        ns = types.SimpleNamespace()
        for k in dir(_real_os):
            if not k.startswith('__'):
                setattr(ns, k, getattr(_real_os, k))
        p = types.SimpleNamespace()
        for k in dir(posixpath):
            if not k.startswith('__'):
                setattr(p, k, getattr(posixpath, k))
        p.exists = lambda path: _real_os.fspath(path) in disk.files or _real_os.fspath(path) in disk.dirs
        p.isdir = lambda path: _real_os.fspath(path) in disk.dirs
        p.isfile = lambda path: _real_os.fspath(path) in disk.files
        ns.path = p

        def chmod(path, mode):
            disk._call('chmod')
            path = _real_os.fspath(path)
            if path not in disk.files and path not in disk.dirs:
                raise FileNotFoundError(errno.ENOENT, 'No such file or directory', path)

        def listdir(path):
            path = _real_os.fspath(path).rstrip('/') or '/'
            if path not in disk.dirs:
                raise FileNotFoundError(errno.ENOENT, 'No such file or directory', path)
            out = []
            for q in list(disk.files) + list(disk.dirs):
                if q != path and posixpath.dirname(q) == path:
                    out.append(posixpath.basename(q))
            return sorted(out)

        def mkdir(path, mode=0o777):
            disk._call('mkdir')
            path = _real_os.fspath(path).rstrip('/')
            if path in disk.dirs or path in disk.files:
                raise FileExistsError(errno.EEXIST, 'File exists', path)
            if posixpath.dirname(path) not in disk.dirs:
                raise FileNotFoundError(errno.ENOENT, 'No such file or directory', path)
            disk.dirs.add(path)

        def makedirs(path, mode=0o777, exist_ok=False):
            path = _real_os.fspath(path).rstrip('/')
            if not path:
                raise FileNotFoundError(errno.ENOENT, 'No such file or directory', path)
            if path in disk.dirs:
                if not exist_ok:
                    raise FileExistsError(errno.EEXIST, 'File exists', path)
                return
            if path in disk.files:
                raise FileExistsError(errno.EEXIST, 'File exists', path)
            parent = posixpath.dirname(path)
            if parent and parent != path and parent not in disk.dirs:
                makedirs(parent, mode, True)
            mkdir(path, mode)

        def remove(path):
            disk._call('remove')
            path = _real_os.fspath(path)
            if path in disk.dirs:
                raise IsADirectoryError(errno.EISDIR, 'Is a directory', path)
            if path not in disk.files:
                raise FileNotFoundError(errno.ENOENT, 'No such file or directory', path)
            del disk.files[path]

        def rmdir(path):
            disk._call('rmdir')
            path = _real_os.fspath(path).rstrip('/')
            if path not in disk.dirs:
                raise FileNotFoundError(errno.ENOENT, 'No such file or directory', path)
            if listdir(path):
                raise OSError(errno.ENOTEMPTY, 'Directory not empty', path)
            disk.dirs.discard(path)

        def removedirs(path):
            rmdir(path)
            head = posixpath.dirname(_real_os.fspath(path).rstrip('/'))
            while head and head != '/':
                try:
                    rmdir(head)
                except OSError:
                    break
                head = posixpath.dirname(head)
        ns.chmod, ns.listdir, ns.mkdir, ns.makedirs = chmod, listdir, mkdir, makedirs
        ns.remove, ns.rmdir, ns.removedirs = remove, rmdir, removedirs
        return ns


class SimFile:
    def __init__(self, disk, path, mode, binary):
        self.disk, self.path, self.mode, self.binary = disk, path, mode, binary
        self.buf = bytearray()
        self.closed = False
        self.dead = False
        self.readable = 'r' in mode or '+' in mode
        self.writable = any(c in mode for c in 'wax+')
        self.rpos = 0

    def _check(self):
        if self.dead:
            raise ValueError('I/O operation on a handle of a crashed process')
        if self.closed:
            raise ValueError('I/O operation on closed file.')

    def write(self, content):
        self._check()
        if not self.writable:
            raise OSError('not writable')
        if self.binary:
            if isinstance(content, str):
                raise TypeError("a bytes-like object is required, not 'str'")
            data = bytes(content)
        else:
            if not isinstance(content, str):
                raise TypeError(f'write() argument must be str, not {type(content).__name__}')
            data = content.encode('utf-8', 'surrogatepass')
        self.disk._call('write')
        self.buf += data
        if len(self.buf) > self.disk.buffer_size:
            self._drain('write')
        return len(content)

    def _drain(self, kind):
        data, self.buf = bytes(self.buf), bytearray()
        self.disk._commit(self.path, data, kind)

    def flush(self):
        self._check()
        if self.writable:
            self.disk._call('flush')
            self._drain('flush')

    def close(self):
        if self.closed:
            return
        try:
            if self.writable and not self.dead:
                self.disk._call('close')
                self._drain('close')
        finally:
            self.closed = True
            if self in self.disk.handles:
                self.disk.handles.remove(self)

    def _content(self):
        data = bytes(self.disk.files.get(self.path, b''))
        return data

    def read(self, size=None):
        self._check()
        if not self.readable:
            raise OSError('not readable')
        data = self._content()
        if self.binary:
            out = data[self.rpos:] if size is None or size < 0 else data[self.rpos:self.rpos + size]
            self.rpos += len(out)
            return out
        text = data.decode('utf-8', 'surrogatepass')
        out = text[self.rpos:] if size is None or size < 0 else text[self.rpos:self.rpos + size]
        self.rpos += len(out)
        return out

    def readline(self):
        self._check()
        data = self._content()
        if self.binary:
            i = data.find(b'\n', self.rpos)
            end = len(data) if i < 0 else i + 1
            out = data[self.rpos:end]
        else:
            text = data.decode('utf-8', 'surrogatepass')
            i = text.find('\n', self.rpos)
            end = len(text) if i < 0 else i + 1
            out = text[self.rpos:end]
        self.rpos = end
        return out

    def seek(self, offset, whence=0):
        self._check()
        n = len(self._content() if self.binary else self._content().decode('utf-8', 'surrogatepass'))
        if whence == 0:
            self.rpos = offset
        elif whence == 1:
            self.rpos += offset
        else:
            self.rpos = n + offset
        return self.rpos

    def tell(self):
        return self.rpos

    def __enter__(self):
        return self

    def __exit__(self, *a):
        self.close()
