"""Kernel: seeds, sub-streams, digests, violations, delta debugging.

One integer (VERIF_SEED) decides everything.  Run `i` of a check gets
run_seed = H(VERIF_SEED/property/tier/i); inside a run independent named
sub-streams are derived from run_seed, so shrinking one dimension does not
re-roll the others.  Nothing here reads a real clock or the global `random`.
"""
import hashlib
import json
import random


def h64(material: str) -> int:
    return int.from_bytes(hashlib.sha256(material.encode()).digest()[:8], 'big')


def run_seed(verif_seed: int, prop: str, tier: str, i: int) -> int:
    return h64(f'{verif_seed}/{prop}/{tier}/{i}')


class Streams:
    """Named, independent PRNG sub-streams of one run seed."""

    def __init__(self, seed: int):
        self.seed = seed
        self._cache = {}

    def get(self, name: str) -> random.Random:
        r = self._cache.get(name)
        if r is None:
            r = self._cache[name] = random.Random(h64(f'{self.seed}/{name}'))
        return r

    def sub(self, name: str) -> int:
        return h64(f'{self.seed}/{name}')


def canon(obj) -> str:
    return json.dumps(obj, sort_keys=True, separators=(',', ':'), default=repr)


def digest(obj) -> str:
    return hashlib.sha1(canon(obj).encode()).hexdigest()[:16]


def small_hash(obj) -> int:
    return int.from_bytes(hashlib.sha1(canon(obj).encode()).digest()[:6], 'big')


class Violation:
    """(property, oracle, signature, message)."""

    __slots__ = ('prop', 'oracle', 'sig', 'msg', 'step')

    def __init__(self, prop, oracle, sig, msg, step=None):
        self.prop, self.oracle, self.sig, self.msg, self.step = (
            prop, oracle, sig, msg, step)

    def to_json(self):
        return dict(prop=self.prop, oracle=self.oracle, sig=self.sig,
                    msg=self.msg[:2000], step=self.step)

    def __repr__(self):
        return f'Violation({self.prop} {self.sig}: {self.msg[:300]})'


class HarnessError(Exception):
    """Anything that is the machinery's fault; never a pass, never a violation."""


def ddmin(items, test, max_tests=400):
    """Delta debugging on a list.  `test(sub)` -> True when still failing.

    Returns a 1-minimal-ish sublist (bounded by max_tests evaluations).
    """
    items = list(items)
    n = 2
    tests = 0
    while len(items) >= 1 and tests < max_tests:
        if len(items) == 1:
            tests += 1
            if test([]):
                items = []
            break
        chunk = max(1, len(items) // n)
        subsets = [items[i:i + chunk] for i in range(0, len(items), chunk)]
        reduced = False
        # try complements (drop one chunk)
        for k in range(len(subsets)):
            if tests >= max_tests:
                break
            comp = [x for j, s in enumerate(subsets) if j != k for x in s]
            tests += 1
            if test(comp):
                items = comp
                n = max(n - 1, 2)
                reduced = True
                break
        if not reduced:
            if chunk == 1:
                break
            n = min(len(items), n * 2)
    return items
