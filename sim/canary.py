"""Canaries: realistic breaking changes applied by monkeypatch in a child
process (never in /repo), used to prove that a check is sensitive."""
import inspect
import textwrap


def patch_source(owner, name, old, new, count=1):
    """Re-define function `name` of `owner` (class or module) with `old`
    replaced by `new` in its source text."""
    fn = owner.__dict__[name] if isinstance(owner, type) else getattr(owner, name)
    kind = None
    if isinstance(fn, (classmethod, staticmethod)):
        kind = type(fn)
        fn = fn.__func__
    if isinstance(fn, property):
        raise TypeError('use patch_property')
    raw = fn
    while hasattr(raw, '__wrapped__'):
        raw = raw.__wrapped__
    src = getattr(raw, '__verif_source__', None) or textwrap.dedent(inspect.getsource(raw))
    if old not in src:
        raise AssertionError(f'canary text not found in {owner}.{name}: {old!r}')
    src = src.replace(old, new, count)
    import sys as _sys
    mod = _sys.modules[raw.__module__]
    ns = {}
    glb = dict(vars(mod))
    if isinstance(owner, type):
        glb['__class__'] = owner
        # support zero-arg super() by wrapping in a class-like closure
        lines = src.splitlines()
        wrapped = 'def __make(__class__):\n' + textwrap.indent(src, '    ') + \
                  f'\n    return {raw.__name__}\n'
        exec(compile(wrapped, raw.__code__.co_filename, 'exec'), glb, ns)
        new_fn = ns['__make'](owner)
    else:
        exec(compile(src, raw.__code__.co_filename, 'exec'), glb, ns)
        new_fn = ns[raw.__name__]
    new_fn.__verif_source__ = src
    new_fn.__qualname__ = raw.__qualname__
    new_fn.__module__ = raw.__module__
    if kind is not None:
        new_fn = kind(new_fn)
    setattr(owner, name, new_fn)
    return new_fn
