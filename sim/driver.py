"""Generic check driver: known-finding confirmation, seeded exploration on a
process pool, determinism self-test, minimisation, fresh-interpreter replay,
canaries, evidence.

Exit codes: 0 property held on everything explored; 1 violation (with a line
`VIOLATION property=<id> replay=<path>`); 2 harness error (never a pass).
"""
import argparse
import collections
import concurrent.futures as cf
import faulthandler
import gc
import importlib
import json
import multiprocessing
import os
import subprocess
import sys
import time
import traceback

from sim import core
from sim.core import Streams, Violation, HarnessError

ROOT = os.path.dirname(os.path.dirname(os.path.abspath(__file__)))
KNOWN_FILE = os.path.join(ROOT, 'KNOWN_FINDINGS.txt')
REPLAY_DIR = os.path.join(ROOT, 'replays')
# (tools_seeded.py points this elsewhere: runs against a deliberately broken tree must
# not overwrite the evidence of the registered checks)
EVIDENCE_DIR = os.environ.get('VERIF_EVIDENCE_DIR') or os.path.join(ROOT, 'evidence')

ENGINES = {
    'C16': 'engines.c16',
    'C15': 'engines.c15',
    'C14': 'engines.c14',
    'C12': 'engines.c14',
    'C17': 'engines.c17',
    'C05': 'engines.c05',
    'C01': 'engines.symtree',
    'C02': 'engines.symtree',
    'C03': 'engines.symtree',
    'C07': 'engines.symtree',
    'C08': 'engines.symtree',
    'C09': 'engines.symtree',
}


def load_engine(prop):
    if prop not in ENGINES:
        raise SystemExit(f'unknown or unclaimed property {prop}')
    return importlib.import_module(ENGINES[prop])


# ---------------------------------------------------------------------------
# known findings file


def load_known(prop):
    """Lines: `known: property=<id> sig=<sig> replay=<relpath> what=<text>`
    and `fixed: property=<id> <commit> <what failed>` (suppresses nothing)."""
    known, fixed = [], []
    if not os.path.exists(KNOWN_FILE):
        return known, fixed
    for line in open(KNOWN_FILE):
        line = line.strip()
        if not line or line.startswith('#'):
            continue
        if line.startswith('known:'):
            body = line[len('known:'):].strip()
            f = {}
            what = ''
            if ' what=' in body:
                body, what = body.split(' what=', 1)
            for tok in body.split():
                if '=' in tok:
                    k, v = tok.split('=', 1)
                    f[k] = v
            f['what'] = what
            if f.get('property') == prop:
                known.append(f)
        elif line.startswith('fixed:'):
            if f'property={prop} ' in line:
                fixed.append(line)
    return known, fixed


# ---------------------------------------------------------------------------
# worker side


_ENGINE = None
_PROP = None


def _silence():
    gc.disable()


def _run_index(prop, tier, vseed, i, keep_case=False):
    eng = load_engine(prop)
    streams = Streams(core.run_seed(vseed, prop, tier, i))
    case = eng.gen_case(streams, tier, prop) if _takes_prop(eng.gen_case) \
        else eng.gen_case(streams, tier)
    res = eng.run_case(case, prop)
    return case, res


def _takes_prop(fn):
    return fn.__code__.co_argcount >= 3


def _compact(i, case, res, want_sample):
    out = {
        'i': i,
        'digest': res.get('digest'),
        'nontrivial': bool(res.get('nontrivial')),
        'ntkey': res.get('ntkey', res.get('digest')),
        'faults': res.get('faults', {}),
        'probes': res.get('probes', {}),
        'steps': res.get('steps', 0),
        'sim_time': res.get('sim_time', 0.0),
        'states': res.get('states', []),
        'interleaving': res.get('interleaving'),
        'violations': [v.to_json() for v in res.get('violations', [])],
        'relaxed': res.get('relaxed', 0),
    }
    if want_sample or out['violations']:
        out['case'] = case
        out['summary'] = res.get('summary')
    if out['violations'] and 'decisions' in res:
        out['decisions'] = res['decisions']
    return out


def _chunk(args):
    prop, tier, vseed, idxs, sample_every, watchdog = args
    faulthandler.dump_traceback_later(watchdog, exit=True)
    try:
        outs = []
        for i in idxs:
            try:
                case, res = _run_index(prop, tier, vseed, i)
                outs.append(_compact(i, case, res, i % sample_every == 0))
            except Exception:  # pylint: disable=broad-except
                outs.append({'i': i, 'harness_error': traceback.format_exc()})
            if i % 8 == 0:
                gc.collect()
        return outs
    finally:
        faulthandler.cancel_dump_traceback_later()


def _minimise_job(args):
    prop, case, sig, decisions, budget_s = args
    faulthandler.dump_traceback_later(budget_s + 600, exit=True)
    try:
        return minimise(prop, case, sig, decisions, budget_s)
    finally:
        faulthandler.cancel_dump_traceback_later()


def _has_sig(res, sig):
    return any(v.sig == sig for v in res.get('violations', []))


def minimise(prop, case, sig, decisions=None, budget_s=120.0):
    """Shrink while the *same signature* persists."""
    eng = load_engine(prop)
    t_end = time.time() + budget_s
    tests = [0]

    def fails(c):
        tests[0] += 1
        try:
            return _has_sig(eng.run_case(c, prop), sig)
        except Exception:  # pylint: disable=broad-except
            return False

    cur = case
    # 1. make the schedule explicit (script) when the engine has one
    if hasattr(eng, 'to_script_case') and decisions is not None:
        sc = eng.to_script_case(cur, {'decisions': decisions})
        if fails(sc):
            cur = sc
    # 2. structural candidates, greedily to a fixpoint
    if hasattr(eng, 'shrink_candidates'):
        progress = True
        while progress and time.time() < t_end:
            progress = False
            for label, cand in eng.shrink_candidates(cur):
                if time.time() >= t_end:
                    break
                if fails(cand):
                    cur = cand
                    progress = True
                    break
    # 3. ddmin over list-valued parts
    for path in getattr(eng, 'LIST_PARTS', []):
        if time.time() >= t_end:
            break
        holder = cur
        ok = True
        for k in path[:-1]:
            if not isinstance(holder, dict) or k not in holder:
                ok = False
                break
            holder = holder[k]
        if not ok or not isinstance(holder, dict) or not isinstance(holder.get(path[-1]), list):
            continue
        items = holder[path[-1]]

        def with_items(sub, path=path):
            c = json.loads(json.dumps(cur))
            h = c
            for k in path[:-1]:
                h = h[k]
            h[path[-1]] = sub
            return c

        def test(sub):
            if time.time() >= t_end:
                return False
            return fails(with_items(sub))
        small = core.ddmin(items, test)
        if len(small) < len(items):
            cand = with_items(small)
            if fails(cand):
                cur = cand
    # 4. second structural pass (now cheap)
    if hasattr(eng, 'shrink_candidates'):
        progress = True
        while progress and time.time() < t_end:
            progress = False
            for label, cand in eng.shrink_candidates(cur):
                if time.time() >= t_end:
                    break
                if fails(cand):
                    cur = cand
                    progress = True
                    break
    if not fails(cur):
        # should not happen (determinism); fall back to the original
        cur = case
    return cur, tests[0]


# ---------------------------------------------------------------------------
# replay


def replay_file(path, quiet=False):
    rec = json.load(open(path))
    prop = rec['property']
    eng = load_engine(prop)
    # a violation that depends on process-wide state left behind by earlier,
    # independent runs carries those runs as a prelude (run indices of the same
    # VERIF_SEED / tier, regenerated from the seed)
    for j in rec.get('prelude_indices', []):
        try:
            _run_index(prop, rec['tier'], rec['verif_seed'], j)
        except Exception:  # pylint: disable=broad-except
            pass
    res = eng.run_case(rec['case'], prop)
    sigs = [v.sig for v in res.get('violations', [])]
    if not quiet:
        for v in res.get('violations', []):
            print(f'  violation {v.sig}: {v.msg}')
    return prop, rec, res, sigs


def cmd_replay(path):
    prop, rec, res, sigs = replay_file(path)
    want = rec.get('signature')
    if want in sigs:
        print(f'REPRODUCED signature={want} digest={res.get("digest")}')
        print(f'VIOLATION property={prop} replay={path}')
        return 1
    if sigs:
        print(f'DIFFERENT signatures={sigs} (recorded {want})')
        print(f'VIOLATION property={prop} replay={path}')
        return 1
    print(f'NOT-REPRODUCED recorded signature={want}; property holds on this replay')
    return 0


def fresh_replay(path, sig):
    """Replay in a fresh interpreter; True iff the same signature reproduces."""
    env = dict(os.environ, PYTHONHASHSEED='0')
    p = subprocess.run(
        [sys.executable, os.path.join(ROOT, 'check.py'), '--replay', path],
        capture_output=True, text=True, env=env, timeout=900)
    return (f'REPRODUCED signature={sig}' in p.stdout), p.stdout + p.stderr


def _replay_with_history(path, sig, i, chunk):
    """The case alone does not reproduce in a fresh interpreter: replay it after
    the runs that preceded it in its worker (its own chunk first, then a longer
    prefix), reporting the original, unminimised case; the prelude is then cut
    down by halving while the violation persists."""
    rec = json.load(open(path))
    rec['case'] = rec.get('original_case', rec['case'])
    start = (i // chunk) * chunk
    for prelude in (list(range(start, i)), list(range(max(0, i - 4 * chunk), i)),
                    list(range(max(0, i - 3000), i))):
        if not prelude:
            continue
        rec['prelude_indices'] = prelude
        json.dump(rec, open(path, 'w'), indent=1, default=repr)
        ok, _ = fresh_replay(path, sig)
        if ok:
            break
    else:
        rec.pop('prelude_indices', None)
        json.dump(rec, open(path, 'w'), indent=1, default=repr)
        return False
    # cut the prelude down (bounded number of fresh replays)
    tests = 0
    while len(prelude) > 1 and tests < 14:
        half = len(prelude) // 2
        for cand in (prelude[half:], prelude[:half]):
            tests += 1
            rec['prelude_indices'] = cand
            json.dump(rec, open(path, 'w'), indent=1, default=repr)
            if fresh_replay(path, sig)[0]:
                prelude = cand
                break
        else:
            break
    rec['prelude_indices'] = prelude
    json.dump(rec, open(path, 'w'), indent=1, default=repr)
    return fresh_replay(path, sig)[0]


# ---------------------------------------------------------------------------
# digests for the determinism self-test


def cmd_digests(prop, tier, vseed, idxs, warmup):
    _silence()
    out = {}
    for w in range(warmup):
        _run_index(prop, tier, vseed, 10_000_000 + w)
    for i in idxs:
        case, res = _run_index(prop, tier, vseed, i)
        out[str(i)] = res.get('digest')
    print('DIGESTS ' + json.dumps(out))
    return 0


def determinism_selftest(prop, tier, vseed, digests, k):
    """Re-run a sample of indices in fresh interpreters under another
    PYTHONHASHSEED, in reverse order, after warm-up runs; digests must match
    the pool's."""
    idxs = sorted(digests)[:: max(1, len(digests) // k)][:k]
    if not idxs:
        return {'checked': 0, 'mismatches': []}
    jobs = []
    for hs, order, warm in (('77', list(reversed(idxs)), 3), ('1', idxs, 0)):
        env = dict(os.environ, PYTHONHASHSEED=hs, VERIF_NO_REEXEC='1')
        jobs.append(subprocess.Popen(
            [sys.executable, os.path.join(ROOT, 'check.py'), prop, '--tier', tier,
             '--digests', ','.join(map(str, order)), '--warmup', str(warm)],
            stdout=subprocess.PIPE, stderr=subprocess.PIPE, text=True, env=env))
    mism = []
    checked = 0
    for j in jobs:
        try:
            so, se = j.communicate(timeout=900)
        except subprocess.TimeoutExpired:
            j.kill()
            raise HarnessError('determinism self-test timed out')
        line = [l for l in so.splitlines() if l.startswith('DIGESTS ')]
        if not line:
            raise HarnessError('determinism self-test produced no digests:\n' + so[-2000:] + se[-4000:])
        got = json.loads(line[0][8:])
        for i, d in got.items():
            checked += 1
            if digests[int(i)] != d:
                mism.append((int(i), digests[int(i)], d))
    return {'checked': checked, 'mismatches': mism, 'indices': idxs}


# ---------------------------------------------------------------------------
# canaries


def cmd_canary(prop, name, tier, vseed, max_runs, wall):
    eng = load_engine(prop)
    can = eng.CANARIES[name]
    can['apply']()
    known, _ = load_known(prop)
    known_sigs = {k['sig'] for k in known}
    t0 = time.time()
    ctx = multiprocessing.get_context('fork')
    nproc = int(os.environ.get('VERIF_PROCS', os.cpu_count() or 4))
    found = None
    runs = 0
    with cf.ProcessPoolExecutor(nproc, mp_context=ctx, initializer=_silence) as ex:
        chunk = 4
        futs = []
        nxt = 0
        while nxt < max_runs:
            idxs = list(range(nxt, min(nxt + chunk, max_runs)))
            nxt += chunk
            futs.append(ex.submit(_chunk, (prop, 'canary', vseed, idxs, 10 ** 9, 900)))
        for f in cf.as_completed(futs):
            for o in f.result():
                runs += 1
                if o.get('harness_error'):
                    continue
                vs = [v for v in o['violations'] if v['sig'] not in known_sigs]
                if vs and found is None:
                    found = (o['i'], vs[0]['sig'], time.time() - t0, runs)
            if found or time.time() - t0 > wall:
                for g in futs:
                    g.cancel()
                break
    if found:
        print('CANARY ' + json.dumps({'name': name, 'caught': True, 'index': found[0],
                                      'sig': found[1], 'secs': round(found[2], 2),
                                      'runs': found[3]}))
    else:
        print('CANARY ' + json.dumps({'name': name, 'caught': False, 'runs': runs,
                                      'secs': round(time.time() - t0, 2)}))
    return 0


def run_canaries(prop, tier, vseed, eng):
    results = []
    names = [n for n in sorted(getattr(eng, 'CANARIES', {}))
             if '.' not in n or n.startswith(prop + '.')]
    for name in names:
        env = dict(os.environ, PYTHONHASHSEED='0', VERIF_NO_REEXEC='1')
        try:
            p = subprocess.run(
                [sys.executable, os.path.join(ROOT, 'check.py'), prop, '--canary', name,
                 '--tier', tier],
                capture_output=True, text=True, env=env, timeout=1500)
            line = [l for l in p.stdout.splitlines() if l.startswith('CANARY ')]
            if line:
                results.append(json.loads(line[0][7:]))
            else:
                results.append({'name': name, 'caught': False,
                                'error': (p.stdout + p.stderr)[-500:]})
        except subprocess.TimeoutExpired:
            results.append({'name': name, 'caught': False, 'error': 'timeout'})
    return results


# ---------------------------------------------------------------------------
# main check


def main(argv=None):
    ap = argparse.ArgumentParser()
    ap.add_argument('prop', nargs='?')
    ap.add_argument('--tier', default=os.environ.get('VERIF_TIER', 'quick'))
    ap.add_argument('--replay')
    ap.add_argument('--digests')
    ap.add_argument('--warmup', type=int, default=0)
    ap.add_argument('--canary')
    ap.add_argument('--runs', type=int)
    ap.add_argument('--wall', type=float)
    ap.add_argument('--no-canaries', action='store_true')
    ap.add_argument('--canaries', action='store_true')
    a = ap.parse_args(argv)
    vseed = int(os.environ.get('VERIF_SEED', '0'))

    if os.environ.get('PYTHONHASHSEED') is None and not os.environ.get('VERIF_NO_REEXEC'):
        env = dict(os.environ, PYTHONHASHSEED='0')
        os.execve(sys.executable, [sys.executable] + sys.argv, env)

    if a.replay:
        try:
            return cmd_replay(a.replay)
        except Exception:  # pylint: disable=broad-except
            traceback.print_exc()
            print('HARNESS-ERROR during replay')
            return 2
    if not a.prop:
        ap.error('property id required')
    prop = a.prop
    tier = a.tier if a.tier in ('quick', 'thorough') else 'quick'
    if a.digests:
        return cmd_digests(prop, tier, vseed, [int(x) for x in a.digests.split(',')], a.warmup)
    if a.canary:
        eng = load_engine(prop)
        b = eng.budget('quick', prop) if eng.budget.__code__.co_argcount >= 2 else eng.budget('quick')
        return cmd_canary(prop, a.canary, tier, vseed,
                          a.runs or b.get('canary_runs', max(200, b['runs'] // 4)),
                          a.wall or b.get('canary_wall', 120))
    try:
        return run_check(prop, tier, vseed, a)
    except HarnessError as e:
        print(f'HARNESS-ERROR property={prop}: {e}')
        return 2
    except Exception:  # pylint: disable=broad-except
        traceback.print_exc()
        print(f'HARNESS-ERROR property={prop}: unexpected exception in the driver')
        return 2


def run_check(prop, tier, vseed, a):
    t0 = time.time()
    _silence()
    eng = load_engine(prop)
    budget = eng.budget(tier, prop) if eng.budget.__code__.co_argcount >= 2 else eng.budget(tier)
    n_runs = a.runs or budget['runs']
    wall = a.wall or budget['wall']
    nproc = int(os.environ.get('VERIF_PROCS', os.cpu_count() or 4))
    print(f'[{prop}] tier={tier} VERIF_SEED={vseed} runs<={n_runs} wall<={wall}s procs={nproc}')
    sys.stdout.flush()
    os.makedirs(REPLAY_DIR, exist_ok=True)
    os.makedirs(EVIDENCE_DIR, exist_ok=True)

    known, fixed = load_known(prop)
    known_sigs = {k['sig'] for k in known}

    # -- confirmation phase: replay the listed findings
    known_status = []
    for k in known:
        path = os.path.join(ROOT, k['replay'])
        ok, out = fresh_replay(path, k['sig'])
        known_status.append({'sig': k['sig'], 'still_fails': ok, 'replay': k['replay']})
        if ok:
            print(f'KNOWN-FINDING: property={prop} {k["what"]} [sig={k["sig"]} replay={k["replay"]}]')
    sys.stdout.flush()

    # -- exploration
    ctx = multiprocessing.get_context('fork')
    results = {}
    harness_errors = []
    t_explore = time.time()
    chunk = budget.get('chunk', 8)
    sample_every = max(1, n_runs // 12)
    stopped_early = False
    with cf.ProcessPoolExecutor(nproc, mp_context=ctx, initializer=_silence) as ex:
        pending = set()
        nxt = 0

        def submit():
            nonlocal nxt
            idxs = list(range(nxt, min(nxt + chunk, n_runs)))
            nxt += len(idxs)
            pending.add(ex.submit(_chunk, (prop, tier, vseed, idxs, sample_every,
                                           budget.get('watchdog', 600))))
        while nxt < n_runs and len(pending) < nproc * 2:
            submit()
        while pending:
            done, _ = cf.wait(pending, timeout=5, return_when=cf.FIRST_COMPLETED)
            for f in done:
                pending.discard(f)
                try:
                    outs = f.result()
                except Exception as e:  # BrokenProcessPool etc.
                    raise HarnessError(f'pool worker died: {e!r}')
                for o in outs:
                    if 'harness_error' in o:
                        harness_errors.append(o)
                    else:
                        results[o['i']] = o
            over = time.time() - t_explore > wall
            if over:
                stopped_early = nxt < n_runs
            while not over and nxt < n_runs and len(pending) < nproc * 2:
                submit()
    explore_s = time.time() - t_explore
    if harness_errors:
        print(harness_errors[0]['harness_error'])
        raise HarnessError(f'{len(harness_errors)} runs raised inside the harness '
                           f'(first index {harness_errors[0]["i"]})')
    if not results:
        raise HarnessError('no runs completed')

    # -- aggregate
    faults = collections.Counter()
    probes = collections.Counter()
    states = set()
    inter = set()
    nt_keys = set()
    steps = 0
    sim_time = 0.0
    relaxed = 0
    new_viol = collections.OrderedDict()
    known_hits = collections.Counter()
    digests = {}
    samples = []
    for i in sorted(results):
        o = results[i]
        digests[i] = o['digest']
        for k, v in o['faults'].items():
            faults[k] += v
        for k, v in o['probes'].items():
            probes[k] += v
        states.update(o['states'])
        if o['interleaving'] is not None:
            inter.add(o['interleaving'])
        if o['nontrivial']:
            nt_keys.add(o['ntkey'])
        steps += o['steps']
        sim_time += o['sim_time']
        relaxed += o['relaxed']
        if 'case' in o and not o['violations'] and len(samples) < 6:
            samples.append({'index': i, 'case': o['case'], 'summary': o.get('summary')})
        for v in o['violations']:
            if v['sig'] in known_sigs:
                known_hits[v['sig']] += 1
            elif v['sig'] not in new_viol:
                new_viol[v['sig']] = (i, v, o)

    # -- determinism self-test
    st = {'checked': 0, 'mismatches': []}
    if not os.environ.get('VERIF_SKIP_SELFTEST'):
        st = determinism_selftest(prop, tier, vseed, digests, budget.get('selftest', 6))
        if st['mismatches']:
            raise HarnessError(f'determinism self-test failed: {st["mismatches"][:3]}')

    # -- new violations: minimise, write replay, confirm in a fresh interpreter
    reported = []
    unreproducible = []
    if new_viol:
        jobs = []
        for sig, (i, v, o) in list(new_viol.items())[:4]:
            jobs.append((sig, i, v, o))
        with cf.ProcessPoolExecutor(min(nproc, len(jobs)), mp_context=ctx,
                                    initializer=_silence) as ex:
            futs = {ex.submit(_minimise_job, (prop, o['case'], sig, o.get('decisions'),
                                              budget.get('minimise_s', 90))): (sig, i, v, o)
                    for sig, i, v, o in jobs}
            for f in cf.as_completed(futs):
                sig, i, v, o = futs[f]
                try:
                    small, ntests = f.result()
                except Exception as e:  # pylint: disable=broad-except
                    small, ntests = o['case'], 0
                    print(f'  (minimisation failed: {e!r}; reporting the original case)')
                safe = ''.join(ch if ch.isalnum() or ch in '-_.' else '_' for ch in sig)[:80]
                path = os.path.join(REPLAY_DIR, f'{prop}-{vseed}-{i}-{safe}.json')
                json.dump({'property': prop, 'signature': sig, 'message': v['msg'],
                           'oracle': v['oracle'], 'verif_seed': vseed, 'tier': tier,
                           'index': i, 'minimise_tests': ntests, 'case': small,
                           'original_case': o['case']}, open(path, 'w'), indent=1,
                          default=repr)
                ok, out = fresh_replay(path, sig)
                if not ok:
                    ok = _replay_with_history(path, sig, i, chunk)
                    if ok:
                        v = dict(v, msg=v['msg'] + ' [only after the earlier independent runs listed '
                                 'as prelude_indices in the replay file: the library keeps '
                                 'process-wide state across unrelated objects]')
                if ok:
                    reported.append((sig, path, v))
                else:
                    unreproducible.append((sig, path, out[-1500:]))
    for sig, path, v in reported:
        print(f'  {sig}: {v["msg"][:400]}')
        print(f'VIOLATION property={prop} replay={path}')

    # -- canaries (thorough tier, or on request)
    canary_results = []
    if (tier == 'thorough' and not a.no_canaries) or a.canaries:
        canary_results = run_canaries(prop, tier, vseed, eng)
        for c in canary_results:
            print(f'  canary {c["name"]}: ' + ('caught' if c.get('caught') else 'MISSED')
                  + f' {c}')

    wall_s = time.time() - t0
    evaluations = len(results)
    ev = {
        'property_id': prop, 'tier': tier, 'seed': vseed, 'level': 'exploration',
        'wall_s': round(wall_s, 2), 'violations': len(reported),
        'coverage': {
            'evaluations': evaluations,
            'distinct_nontrivial': len(nt_keys),
            'rule': eng.RULE,
            'samples': samples[:4],
            'runs_requested': n_runs,
            'stopped_by_wall_cap': stopped_early,
            'exploration_wall_s': round(explore_s, 2),
            'runs_per_hour': int(evaluations / max(explore_s, 1e-6) * 3600),
            'seeds_per_hour': int(evaluations / max(explore_s, 1e-6) * 3600),
            'processes': nproc,
            'preemption_points_or_steps': steps,
            'simulated_seconds': round(sim_time, 1),
            'faults_fired': dict(sorted(faults.items())),
            'reach_probes': dict(sorted(probes.items())),
            'distinct_states': len(states),
            'distinct_interleavings': len(inter),
            'distinct_measure': getattr(eng, 'DISTINCT_MEASURE', ''),
            'relaxed_oracle_runs': relaxed,
            'determinism_selftest': {'reruns_in_fresh_interpreters': st['checked'],
                                     'mismatches': len(st['mismatches'])},
            'known_findings': known_status,
            'known_finding_hits_in_exploration': dict(known_hits),
            'fixed_findings_listed': len(fixed),
            'canaries': canary_results,
            'components': getattr(eng, 'COMPONENTS', {}),
            'unreproducible_in_fresh_interpreter': len(unreproducible),
        },
        'assumptions': getattr(eng, 'ASSUMPTIONS', []),
    }
    path = os.path.join(EVIDENCE_DIR, f'{prop}.json')
    json.dump(ev, open(path + '.tmp', 'w'), indent=1, default=repr)
    os.replace(path + '.tmp', path)
    print(f'[{prop}] {evaluations} runs ({len(nt_keys)} distinct non-trivial) in '
          f'{explore_s:.1f}s, {steps} steps, faults {dict(faults)}, '
          f'known hits {dict(known_hits)}, selftest {st["checked"]} reruns ok')
    if unreproducible:
        for sig, path, out in unreproducible:
            print(f'  unreproducible {sig} replay={path}\n{out}')
        print(f'HARNESS-ERROR property={prop}: a violation did not reproduce in a fresh '
              f'interpreter (harness bug; reported as neither pass nor violation)')
        return 2
    if reported:
        return 1
    if evaluations < 2 or len(nt_keys) < 2:
        print(f'HARNESS-ERROR property={prop}: exploration too small to mean anything')
        return 2
    return 0
