"""Deterministic thread scheduler: real threads, baton passing, PEP 669 LINE
events as pre-emption points, simulated locks / thread ids / clock.

Exactly one task thread runs at any instant; all others are parked on a
private Event.  Who runs next is decided by the simulator only (seeded PRNG,
PCT priorities, or a recorded script), so real threads replay exactly.

A decision is recorded as [tid, k, next] (voluntary switch at the k-th
pre-emption point of task tid) or [tid, "F", n, next] (forced choice, taken
when tid blocks or ends for the n-th time).  In script mode a missing entry
means "no switch" / "lowest runnable task id", so any sub-list of a recorded
schedule is again a valid schedule (what makes delta debugging work).
"""
import datetime as _real_datetime
import random
import sys
import threading
import time as _real_time
import types

mon = sys.monitoring
TOOL_ID = 3


class SimAbort(BaseException):
    """Raised inside parked task threads to unwind them when a run is aborted."""


class Deadlock(Exception):
    pass


class StepCap(Exception):
    pass


# ----------------------------------------------------------------------------
# code object discovery


def code_objects_of(target):
    """All code objects of a module (functions, methods, properties, nested)
    or of a single function."""
    out = []
    seen_codes = set()

    def walk(co):
        if id(co) in seen_codes:
            return
        seen_codes.add(id(co))
        out.append(co)
        for c in co.co_consts:
            if isinstance(c, types.CodeType):
                walk(c)

    if isinstance(target, types.ModuleType):
        src = getattr(target, '__file__', None)
        seen = set()

        def visit(obj, depth=0):
            if id(obj) in seen or depth > 6:
                return
            seen.add(id(obj))
            if isinstance(obj, types.FunctionType):
                if obj.__code__.co_filename == src:
                    walk(obj.__code__)
                w = getattr(obj, '__wrapped__', None)
                if w is not None:
                    visit(w, depth + 1)
            elif isinstance(obj, (classmethod, staticmethod)):
                visit(obj.__func__, depth + 1)
            elif isinstance(obj, property):
                for f in (obj.fget, obj.fset, obj.fdel):
                    if f is not None:
                        visit(f, depth + 1)
            elif isinstance(obj, type):
                if getattr(obj, '__module__', None) == target.__name__:
                    for v in list(vars(obj).values()):
                        visit(v, depth + 1)
            elif hasattr(obj, '__wrapped__'):
                try:
                    visit(obj.__wrapped__, depth + 1)
                except Exception:
                    pass

        for v in list(vars(target).values()):
            visit(v)
    elif isinstance(target, types.CodeType):
        walk(target)
    else:
        fn = getattr(target, '__func__', target)
        walk(fn.__code__)
    # stable order
    out.sort(key=lambda c: (c.co_filename, c.co_firstlineno, c.co_name))
    return out


def rmw_offsets(co):
    """Instruction offsets inside read-modify-write windows of attribute /
    item targets (`self.x += 1`, `d[k] -= 1`): the in-place BINARY_OP sits
    after the read and before the write, which is where CPython may switch
    threads in production."""
    import dis
    offs = set()
    ins = list(dis.get_instructions(co))
    for i, x in enumerate(ins):
        if x.opname == 'BINARY_OP' and x.argrepr.endswith('=') and \
                x.argrepr not in ('==', '!=', '<=', '>='):
            for y in ins[i + 1:i + 5]:
                if y.opname in ('STORE_ATTR', 'STORE_SUBSCR'):
                    offs.add(x.offset)
                    break
                if y.opname.startswith('STORE_') or y.opname.startswith('LOAD_'):
                    break
    return offs


# ----------------------------------------------------------------------------
# tasks, scheduler


class Task:
    def __init__(self, sim, tid, fn, name):
        self.sim, self.tid, self.fn, self.name = sim, tid, fn, name
        self.evt = threading.Event()
        self.done = False
        self.started = False
        self.blocked_on = None
        self.exc = None
        self.k = 0          # voluntary pre-emption points seen
        self.forced_n = 0   # forced choices taken
        self.prio = 0.0
        self.thread = threading.Thread(target=self._run, daemon=True,
                                       name=f'sim-task-{tid}')
        self.ident = None

    def _run(self):
        self.ident = threading.get_ident()
        self.evt.wait()
        self.evt.clear()
        sim = self.sim
        try:
            if sim.aborting:
                raise SimAbort()
            self.fn(self)
        except SimAbort:
            pass
        except BaseException as e:  # pylint: disable=broad-except
            self.exc = e
        finally:
            self.done = True
            try:
                sim._task_ended(self)
            except SimAbort:
                pass


class Sim:
    """cfg: dict(mode='random'|'pct'|'burst'|'script', seed, p, p_hi, d,
    est_steps, decisions=[...], max_steps)."""

    def __init__(self, cfg, targets=(), watched=()):
        self.cfg = dict(cfg)
        self.mode = cfg.get('mode', 'random')
        self.rng = random.Random(cfg.get('seed', 0))
        self.p = cfg.get('p', 0.05)
        self.p_hi = cfg.get('p_hi', 0.5)
        self.max_steps = cfg.get('max_steps', 2_000_000)
        self.tasks = []
        self.current = None
        self.steps = 0
        self.switches = 0
        self.seq = 0
        self.events = []
        self.decisions = []
        self.failed = None
        self.aborting = False
        self.active = False
        self.main_evt = threading.Event()
        self.watched = frozenset(watched)
        self.watched_hits = 0
        self.lock_contention = 0
        self.lock_seq = 0
        self.quiet = 0          # >0: LINE events are not pre-emption points
        self.rmw_hits = 0
        self.on_switch = None      # optional hook(sim, frm, to)
        self.codes = []
        seen = set()
        for t in targets:
            for co in code_objects_of(t):
                if id(co) not in seen:
                    seen.add(id(co))
                    self.codes.append(co)
        self.rmw = {}
        for co in self.codes:
            offs = rmw_offsets(co)
            if offs:
                self.rmw[co] = offs
        self.script = None
        if self.mode == 'script':
            self.script = {}
            for d in cfg.get('decisions', []):
                if d[1] == 'F':
                    self.script[(d[0], 'F', d[2])] = d[3]
                else:
                    self.script[(d[0], d[1])] = d[2]
        if self.mode == 'pct':
            est = max(10, cfg.get('est_steps', 20000))
            self.change_points = set(
                self.rng.randrange(1, est) for _ in range(cfg.get('d', 2)))
            self._low_prio = 0.0

    # -- task management ---------------------------------------------------

    def spawn(self, fn, name=None):
        t = Task(self, len(self.tasks), fn, name or f't{len(self.tasks)}')
        if self.mode == 'pct':
            t.prio = 1.0 + self.rng.random()
        self.tasks.append(t)
        if self.active:
            t.thread.start()
            t.started = True
        return t

    def log(self, kind, **data):
        self.seq += 1
        tid = self.current.tid if self.current is not None else -1
        self.events.append((self.seq, tid, kind, data))
        return self.seq

    # -- runnable set --------------------------------------------------------

    def _is_runnable(self, t):
        if t.done:
            return False
        b = t.blocked_on
        return b is None or b.can_acquire(t)

    def _runnable(self):
        return [t for t in self.tasks if self._is_runnable(t)]

    # -- pre-emption -----------------------------------------------------------

    def _on_line(self, code, lineno):
        if not self.active or self.quiet:
            return
        cur = self.current
        if cur is None or threading.get_ident() != cur.ident:
            return
        self.preempt_point(code.co_name)

    def _on_instruction(self, code, offset):
        offs = self.rmw.get(code)
        if offs is None or offset not in offs:
            return mon.DISABLE      # not counted: determinism does not depend on it
        if not self.active:
            return
        cur = self.current
        if cur is None or threading.get_ident() != cur.ident:
            return
        self.rmw_hits += 1
        self.preempt_point('<rmw>')

    def preempt_point(self, why=None):
        t = self.current
        if t is None or not self.active:
            return
        if self.aborting:
            raise SimAbort()
        self.steps += 1
        if self.steps > self.max_steps:
            self._abort(StepCap(f'step cap {self.max_steps}'))
            raise SimAbort()
        t.k += 1
        nxt = self._decide(t, why)
        if nxt is not None and nxt is not t:
            self._switch(t, nxt)

    def _decide(self, t, why):
        mode = self.mode
        if mode == 'script':
            tid = self.script.get((t.tid, t.k))
            if tid is None or tid >= len(self.tasks):
                return None
            nxt = self.tasks[tid]
            if not self._is_runnable(nxt):
                return None
            self.decisions.append([t.tid, t.k, nxt.tid])
            return nxt
        if mode == 'random' or mode == 'burst':
            p = self.p
            if why in self.watched:
                self.watched_hits += 1
                if mode == 'burst':
                    p = self.p_hi
            if self.rng.random() >= p:
                return None
            cands = self._runnable()
            nxt = cands[self.rng.randrange(len(cands))]
            if nxt is not t:
                self.decisions.append([t.tid, t.k, nxt.tid])
            return nxt
        if mode == 'pct':
            if why in self.watched:
                self.watched_hits += 1
            if self.steps in self.change_points:
                self._low_prio -= 1.0
                t.prio = self._low_prio
            cands = self._runnable()
            nxt = max(cands, key=lambda x: (x.prio, -x.tid))
            if nxt is not t:
                self.decisions.append([t.tid, t.k, nxt.tid])
            return nxt
        raise ValueError(mode)

    def _switch(self, t, nxt):
        self.switches += 1
        if self.on_switch is not None:
            self.on_switch(self, t, nxt)
        self.current = nxt
        nxt.evt.set()
        t.evt.wait()
        t.evt.clear()
        if self.aborting:
            raise SimAbort()

    def _forced_pick(self, t):
        """Choose who runs when `t` cannot continue.  Returns None if nobody."""
        cands = [x for x in self._runnable() if x is not t or not t.done]
        if not cands:
            return None
        t.forced_n += 1
        default = cands[0]
        mode = self.mode
        if mode == 'script':
            tid = self.script.get((t.tid, 'F', t.forced_n))
            nxt = default
            if tid is not None and tid < len(self.tasks) and \
                    self._is_runnable(self.tasks[tid]):
                nxt = self.tasks[tid]
        elif mode == 'pct':
            nxt = max(cands, key=lambda x: (x.prio, -x.tid))
        else:
            nxt = cands[self.rng.randrange(len(cands))]
        if nxt is not default:
            self.decisions.append([t.tid, 'F', t.forced_n, nxt.tid])
        return nxt

    def block_on(self, t, lock):
        """Called by SimLock when `t` must wait."""
        self.lock_contention += 1
        while not lock.can_acquire(t):
            if self.aborting:
                raise SimAbort()
            t.blocked_on = lock
            nxt = self._forced_pick(t)
            if nxt is None:
                self._abort(Deadlock(self._wait_for_graph()))
                raise SimAbort()
            if nxt is not t:
                self._switch(t, nxt)
        t.blocked_on = None

    def _task_ended(self, t):
        if self.aborting:
            self._wake_next_abort()
            return
        nxt = self._forced_pick(t)
        if nxt is None:
            if all(x.done for x in self.tasks):
                self.current = None
                self.main_evt.set()
            else:
                self._abort(Deadlock(self._wait_for_graph()))
                self._wake_next_abort()
            return
        self.switches += 1
        self.current = nxt
        nxt.evt.set()

    def _wait_for_graph(self):
        g = []
        for x in self.tasks:
            if not x.done:
                b = x.blocked_on
                owner = getattr(b, 'owner', None)
                g.append((x.tid, getattr(b, 'name', None),
                          owner.tid if owner is not None else None))
        return g

    def _abort(self, exc):
        if self.failed is None:
            self.failed = exc
        self.aborting = True

    def _wake_next_abort(self):
        # unwind parked threads one at a time (each one wakes the next)
        for x in self.tasks:
            if not x.done and x.started:
                self.current = x
                x.evt.set()
                return
        self.current = None
        self.main_evt.set()

    # -- running -------------------------------------------------------------

    def run(self, wall_timeout=120.0):
        mon.use_tool_id(TOOL_ID, 'verif-sim')
        mon.register_callback(TOOL_ID, mon.events.LINE, self._on_line)
        mon.register_callback(TOOL_ID, mon.events.INSTRUCTION, self._on_instruction)
        for co in self.codes:
            ev = mon.events.LINE
            if co in self.rmw:
                ev |= mon.events.INSTRUCTION
            mon.set_local_events(TOOL_ID, co, ev)
        try:
            for t in self.tasks:
                if not t.started:
                    t.thread.start()
                    t.started = True
            if self.mode == 'script':
                first = self.tasks[0]
                tid = self.script.get((-1, 'F', 0))
                if tid is not None and tid < len(self.tasks):
                    first = self.tasks[tid]
            elif self.mode == 'pct':
                first = max(self.tasks, key=lambda x: (x.prio, -x.tid))
            else:
                first = self.tasks[self.rng.randrange(len(self.tasks))]
            if first.tid != 0:
                self.decisions.append([-1, 'F', 0, first.tid])
            self.current = first
            self.active = True
            first.evt.set()
            ok = self.main_evt.wait(wall_timeout)
            self.active = False
            if not ok:
                raise RuntimeError(
                    'simulator wall-clock watchdog expired (missed seam?): '
                    f'steps={self.steps} current={self.current and self.current.tid}')
            for t in self.tasks:
                t.thread.join(5.0)
        finally:
            self.active = False
            for co in self.codes:
                mon.set_local_events(TOOL_ID, co, 0)
            mon.register_callback(TOOL_ID, mon.events.LINE, None)
            mon.register_callback(TOOL_ID, mon.events.INSTRUCTION, None)
            mon.free_tool_id(TOOL_ID)
        if self.failed is not None:
            raise self.failed


# ----------------------------------------------------------------------------
# simulated synchronisation


class SimLock:
    _n = 0

    def __init__(self, sim, name=None):
        self.sim = sim
        self.owner = None
        sim.lock_seq += 1       # per-run counter: names must not depend on history
        self.name = name or f'lock{sim.lock_seq}'
        self.acquisitions = 0

    def can_acquire(self, t):
        return self.owner is None

    def acquire(self, blocking=True, timeout=-1):
        sim = self.sim
        t = sim.current
        if not sim.active or t is None or threading.get_ident() != t.ident:
            # outside a simulated run (set-up / quiescence checks): trivial lock
            if self.owner is not None and self.owner != 'main':
                raise RuntimeError('SimLock held by a task outside the run')
            if self.owner == 'main':
                raise RuntimeError('SimLock re-acquired on main')
            self.owner = 'main'
            return True
        sim.preempt_point('<lock.acquire>')
        if self.owner is not None:
            if not blocking:
                return False
            sim.block_on(t, self)
        self.owner = t
        self.acquisitions += 1
        sim.log('acq', lock=self.name)
        return True

    def release(self):
        sim = self.sim
        if self.owner is None:
            raise RuntimeError('release unlocked lock')
        self.owner = None
        t = sim.current
        if sim.active and t is not None and threading.get_ident() == t.ident:
            sim.log('rel', lock=self.name)
            sim.preempt_point('<lock.release>')

    def locked(self):
        return self.owner is not None

    def __enter__(self):
        self.acquire()
        return self

    def __exit__(self, *a):
        self.release()


class SimRLock(SimLock):
    def __init__(self, sim, name=None):
        super().__init__(sim, name)
        self.count = 0

    def can_acquire(self, t):
        return self.owner is None or self.owner is t

    def acquire(self, blocking=True, timeout=-1):
        sim = self.sim
        t = sim.current
        if not sim.active or t is None or threading.get_ident() != t.ident:
            self.count += 1
            self.owner = 'main'
            return True
        if self.owner is t:
            self.count += 1
            return True
        sim.preempt_point('<lock.acquire>')
        if self.owner is not None:
            if not blocking:
                return False
            sim.block_on(t, self)
        self.owner = t
        self.count = 1
        sim.log('acq', lock=self.name)
        return True

    def release(self):
        self.count -= 1
        if self.count == 0:
            sim = self.sim
            self.owner = None
            t = sim.current
            if sim.active and t is not None and threading.get_ident() == t.ident:
                sim.log('rel', lock=self.name)
                sim.preempt_point('<lock.release>')


class SimClock:
    """Deterministic, hostile clock: advances by a seeded amount per read and
    can jump backwards / forwards at seeded read indices."""

    def __init__(self, seed, jumps=()):
        self.rng = random.Random(seed)
        self.now = 1_700_000_000.0
        self.reads = 0
        self.jumps = {int(i): float(dt) for i, dt in jumps}
        self.jumps_fired = {'clock_jump_back': 0, 'clock_jump_fwd': 0}
        self.start = self.now

    def time(self):
        self.reads += 1
        self.now += self.rng.choice((0.0, 0.001, 0.25, 1.0, 3.0))
        dt = self.jumps.get(self.reads)
        if dt is not None:
            self.now += dt
            self.jumps_fired[
                'clock_jump_back' if dt < 0 else 'clock_jump_fwd'] += 1
        return self.now

    def elapsed(self):
        return self.now - self.start


# ----------------------------------------------------------------------------
# seams: module-attribute substitution


_LockType = type(threading.Lock())
_RLockType = type(threading.RLock())


class Seams:
    """Replaces references to threading / time / datetime inside loaded
    pyglove modules by simulated shims; found by scanning, not hard-coded."""

    def __init__(self, sim=None, clock=None, prefix='pyglove'):
        self.sim, self.clock, self.prefix = sim, clock, prefix
        self._undo = []
        self.replaced = {'threading': 0, 'time': 0, 'datetime': 0,
                         'lock_factory': 0, 'lock_instance': 0}

    def _threading_shim(self):
        sim = self.sim
        ns = types.SimpleNamespace()
        for k in dir(threading):
            if not k.startswith('__'):
                setattr(ns, k, getattr(threading, k))

        def get_ident():
            cur = sim.current
            if sim.active and cur is not None and \
                    threading.get_ident() == cur.ident:
                return 1000 + cur.tid
            return threading.get_ident()
        ns.Lock = lambda: SimLock(sim)
        ns.RLock = lambda: SimRLock(sim)
        ns.get_ident = get_ident
        ns.get_native_id = get_ident
        return ns

    def _time_shim(self):
        clock = self.clock
        ns = types.SimpleNamespace()
        for k in dir(_real_time):
            if not k.startswith('__'):
                setattr(ns, k, getattr(_real_time, k))
        ns.time = clock.time
        ns.monotonic = clock.time
        ns.perf_counter = clock.time
        ns.sleep = lambda s: None
        return ns

    def _datetime_shim(self):
        clock = self.clock
        real = _real_datetime

        class _DT(real.datetime):
            @classmethod
            def now(cls, tz=None):
                return real.datetime.fromtimestamp(clock.time(), tz)

            @classmethod
            def utcnow(cls):
                return real.datetime.utcfromtimestamp(clock.time())
        ns = types.SimpleNamespace()
        for k in dir(real):
            if not k.startswith('__'):
                setattr(ns, k, getattr(real, k))
        ns.datetime = _DT
        return ns

    def install(self):
        th = self._threading_shim() if self.sim is not None else None
        tm = self._time_shim() if self.clock is not None else None
        dt = self._datetime_shim() if self.clock is not None else None
        for mname in sorted(sys.modules):
            if not (mname == self.prefix or mname.startswith(self.prefix + '.')):
                continue
            if mname.endswith('_test'):
                continue
            mod = sys.modules[mname]
            if mod is None:
                continue
            for k, v in list(vars(mod).items()):
                new = None
                if v is threading and th is not None:
                    new, kind = th, 'threading'
                elif v is _real_time and tm is not None:
                    new, kind = tm, 'time'
                elif v is _real_datetime and dt is not None:
                    new, kind = dt, 'datetime'
                elif th is not None and v is threading.Lock:
                    new, kind = th.Lock, 'lock_factory'
                elif th is not None and v is threading.RLock:
                    new, kind = th.RLock, 'lock_factory'
                elif th is not None and isinstance(v, _LockType):
                    new, kind = SimLock(self.sim, f'{mname}.{k}'), 'lock_instance'
                elif th is not None and isinstance(v, _RLockType):
                    new, kind = SimRLock(self.sim, f'{mname}.{k}'), 'lock_instance'
                elif th is not None and not isinstance(v, (type, types.ModuleType,
                                                           types.FunctionType)) \
                        and getattr(type(v), '__module__', None) == mname \
                        and isinstance(getattr(v, '__dict__', None), dict):
                    # module-level singleton of a class defined here: locks it holds
                    for ck, cv in list(v.__dict__.items()):
                        if isinstance(cv, _LockType):
                            self._set_item(v.__dict__, ck, cv,
                                           SimLock(self.sim, f'{mname}.{k}.{ck}'))
                            self.replaced['lock_instance'] += 1
                        elif isinstance(cv, _RLockType):
                            self._set_item(v.__dict__, ck, cv,
                                           SimRLock(self.sim, f'{mname}.{k}.{ck}'))
                            self.replaced['lock_instance'] += 1
                elif isinstance(v, type) and getattr(v, '__module__', None) == mname \
                        and th is not None:
                    for ck, cv in list(vars(v).items()):
                        if isinstance(cv, _LockType):
                            self._set(v, ck, cv, SimLock(self.sim, f'{mname}.{k}.{ck}'))
                            self.replaced['lock_instance'] += 1
                        elif isinstance(cv, _RLockType):
                            self._set(v, ck, cv, SimRLock(self.sim, f'{mname}.{k}.{ck}'))
                            self.replaced['lock_instance'] += 1
                if new is not None:
                    self._set(mod, k, v, new)
                    self.replaced[kind] += 1
        return self

    def _set(self, holder, k, old, new):
        setattr(holder, k, new)
        self._undo.append((holder, k, old))

    def _set_item(self, d, k, old, new):
        d[k] = new
        self._undo.append((d, k, old))

    def uninstall(self):
        for holder, k, old in reversed(self._undo):
            if isinstance(holder, dict):
                holder[k] = old
            else:
                setattr(holder, k, old)
        self._undo = []

    def __enter__(self):
        return self.install()

    def __exit__(self, *a):
        self.uninstall()
