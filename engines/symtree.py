"""Engine A — histories with interruption over symbolic forests.
Serves C01, C02, C03, C07, C08, C09.

The "system" is one caller thread, a forest of live symbolic trees and the
thread-local flag stacks.  A run is a seeded history of public-API operations
(every list/dict/object mutator, rebind in all its forms, copying, flag and
scope changes) with faults (a rejected element in the middle of a batch, a
user handler that raises) applied at seeded nodes; the selected property's
oracle is evaluated after every step.

Operations address their target by selector (root r mod #roots, k-th container
in pre-order mod #containers) and keys/indices by "existing i mod n" / literal,
so every sub-sequence of a history is again a valid history (ddmin works).
"""
import copy
import json
import pickle
import random as _global_random

import pyglove as pg

from sim.core import Streams, Violation, digest, small_hash
from engines import values
from engines.values import Leaf, Node, Rec, Rec2, Quiet, RecQ

PROPS = ['C01', 'C02', 'C03', 'C07', 'C08', 'C09']
MISSING = pg.MISSING_VALUE

TYPED_SPECS = {
    'TL1': lambda: pg.typing.List(pg.typing.Int(min_value=0), min_size=1, max_size=5),
    'TL2': lambda: pg.typing.List(pg.typing.Object(Leaf), max_size=3),
    'TL3': lambda: pg.typing.List(pg.typing.Str().noneable(), max_size=4),
    'TD1': lambda: pg.typing.Dict([
        ('a', pg.typing.Int(default=0)),
        ('b', pg.typing.Str().noneable()),
        ('c', pg.typing.List(pg.typing.Int(), default=[], max_size=3)),
        ('d', pg.typing.Enum('p', ['p', 'q'])),
    ]),
    'TD2': lambda: pg.typing.Dict([(pg.typing.StrKey(), pg.typing.Int(max_value=50))]),
}
_SPEC_CACHE = {}


def spec_of(name):
    if name not in _SPEC_CACHE:
        _SPEC_CACHE[name] = TYPED_SPECS[name]()
    return _SPEC_CACHE[name]


LIST_OPS = ['l_setitem', 'l_setslice', 'l_delitem', 'l_append', 'l_insert', 'l_extend',
            'l_pop', 'l_remove', 'l_clear', 'l_sort', 'l_reverse', 'l_iadd', 'l_imul',
            'l_add', 'l_mul', 'l_copy', 'l_getslice']
DICT_OPS = ['d_setitem', 'd_setattr', 'd_delitem', 'd_pop', 'd_popitem', 'd_clear',
            'd_update', 'd_setdefault', 'd_ior', 'd_copy']
OBJ_OPS = ['o_setattr']
ANY_OPS = ['rebind', 'rebind', 'rebind_fn', 'clone', 'clone_shallow', 'copy_copy', 'deepcopy',
           'json_rt', 'pickle_rt', 'seal', 'unseal', 'accessor_on', 'accessor_off', 'construct',
           'twin_assign']
SCOPES = {
    'notify_on_change': pg.notify_on_change,
    'as_sealed': pg.as_sealed,
    'allow_writable_accessors': pg.allow_writable_accessors,
    'allow_partial': pg.allow_partial,
    'enable_type_check': pg.enable_type_check,
}


# ---------------------------------------------------------------------------
# generation


def gen_plain(rng, depth=0, ints_only=False):
    """Plain-Python-only value descriptor (for C02 mirrors)."""
    r = rng.random()
    if ints_only or depth >= 2 or r < 0.55:
        k = rng.random()
        if ints_only or k < 0.5:
            return ['int', rng.randint(-3, 9)]
        if k < 0.6:
            return ['float', rng.choice(['1.0', '0.0', '2.0', '-1.5'])]   # ties with ints / bools
        if k < 0.85:
            return ['str', rng.choice(['a', 'b', 'zz', ''])]
        if k < 0.93:
            return ['none']
        return ['bool', rng.random() < 0.5]
    if r < 0.8:
        return ['list', [gen_plain(rng, depth + 1) for _ in range(rng.randint(0, 3))]]
    items, seen = [], set()
    for _ in range(rng.randint(0, 3)):
        k = rng.choice(['a', 'b', 'c', 'x', 1, 2])
        if k not in seen:
            seen.add(k)
            items.append([k, gen_plain(rng, depth + 1)])
    return ['dict', items]


def gen_key(rng, dotted=False):
    if rng.random() < 0.6:
        return ['existing', rng.randint(0, 5)]
    pool = ['a', 'b', 'c', 'x', 'k1', 1, 2, 'new']
    if dotted:
        pool = pool + ['a.b', 'x[0]']
    return ['new', rng.choice(pool)]


def gen_index(rng):
    r = rng.random()
    if r < 0.55:
        return ['existing', rng.randint(0, 5)]
    if r < 0.8:
        return ['neg', rng.randint(1, 4)]
    return ['abs', rng.choice([0, 1, 5, 7, -9, 99])]


def gen_root(rng, prop):
    r = rng.random()
    flags = {}
    if prop in ('C07', 'C08') and rng.random() < 0.4:
        flags['sealed'] = rng.random() < 0.5
        flags['accessor_writable'] = rng.random() < 0.6
    if prop == 'C02':
        if r < 0.12:     # a long list: indices with one and with two digits
            return {'kind': 'val', 'v': ['list', [['int', i] for i in range(rng.randint(11, 14))]]}
        if r < 0.5:
            return {'kind': 'val', 'v': ['list', [gen_plain(rng, 1) for _ in range(rng.randint(0, 5))]]}
        return {'kind': 'val', 'v': gen_plain_dict(rng)}
    if prop == 'C03':
        # 'val': an untyped tree, the source of spec-less members that get
        # assigned (by reference) to typed fields of the other roots
        k = rng.choice(['node', 'node', 'TL1', 'TL2', 'TL3', 'TD1', 'TD2', 'nodes', 'ptyped',
                        'ptyped', 'val', 'val'])
    elif prop == 'C09':
        k = rng.choice(['rec', 'rec', 'cb', 'node'])
    elif prop == 'C07':
        k = rng.choice(['val', 'val', 'node', 'TL1', 'TL2', 'TD1', 'TD2', 'rec', 'cb', 'nodes',
                        'dna', 'dna', 'functor', 'mixed'])
    else:
        k = rng.choice(['val', 'val', 'clist', 'clist', 'node', 'TL1', 'TL2', 'TD1', 'TD2', 'rec', 'cb',
                        'nodes'])
    d = {'kind': k, 'flags': flags}
    if k == 'val':
        v = values.gen_value(rng, max_depth=3, special_floats=False, tuples=rng.random() < 0.3,
                             tuple_prims=True)
        if v[0] not in ('list', 'dict'):
            v = ['list', [v, values.gen_value(rng, max_depth=2, special_floats=False, tuples=False)]]
        d['v'] = v
    elif k == 'node':
        d['v'] = values.gen_node(rng, 0)
        d['partial'] = rng.random() < 0.25
    elif k == 'nodes':
        d['v'] = ['list', [values.gen_node(rng, 0) for _ in range(rng.randint(1, 3))]]
    elif k == 'TL1':
        d['v'] = ['list', [['int', rng.randint(0, 9)] for _ in range(rng.randint(1, 4))]]
    elif k == 'TL2':
        d['v'] = ['list', [values.gen_leaf(rng) for _ in range(rng.randint(0, 3))]]
    elif k == 'TL3':
        d['v'] = ['list', [['str', rng.choice(['a', 'b', ''])] if rng.random() < 0.7 else ['none']
                           for _ in range(rng.randint(0, 3))]]
    elif k == 'TD1':
        items = []
        if rng.random() < 0.7:
            items.append(['a', ['int', rng.randint(-5, 5)]])
        if rng.random() < 0.5:
            items.append(['b', ['str', rng.choice(['s', 't'])]])
        if rng.random() < 0.5:
            items.append(['c', ['list', [['int', rng.randint(0, 5)] for _ in range(rng.randint(0, 3))]]])
        d['v'] = ['dict', items]
    elif k == 'TD2':
        d['v'] = ['dict', [[kk, ['int', rng.randint(0, 50)]]
                           for kk in rng.sample(['a', 'b', 'c', 'x'], rng.randint(0, 3))]]
    elif k == 'ptyped':
        # a typed container that was explicitly created partial (or complete), as a root
        d['kind'] = 'val'
        d['v'] = ['typed', rng.choice(['pd', 'pl']), rng.random() < 0.7]
    elif k == 'clist':
        # a list of several small containers (shifting siblings is what list bugs need)
        d['kind'] = 'val'
        d['v'] = ['list', [gen_plain(rng, 1) if rng.random() < 0.25 else
                           (['dict', [['k', ['int', i]]]] if rng.random() < 0.5
                            else ['list', [['int', i]]])
                           for i in range(rng.randint(3, 6))]]
    elif k == 'dna':
        d['v'] = gen_dna(rng)
    elif k == 'functor':
        d['v'] = gen_functor(rng)
    elif k == 'mixed':
        d['v'] = ['dict', [['f', gen_functor(rng)], ['d', gen_dna(rng)],
                           ['h', ['oneof', [1, 2, 3]]], ['l', ['list', [gen_functor(rng)]]],
                           # tuples are opaque leaves to pyglove but their content can be mutable
                           ['t1', ['tuple', [['int', 1], ['list', [['int', 2], ['int', 3]]]]]],
                           ['t2', ['tuple', [['tuple', [['dict', [['a', ['int', 1]]]]]], ['str', 'x']]]],
                           ['t3', ['tuple', [['leaf', {'x': 1}], ['int', 0]]]],
                           ['r1', ['ref', ['list', [['int', 1], ['int', 2]]]]],
                           ['r2', ['ref', ['dict', [['a', ['list', [['int', 0]]]]]]]]]]
    elif k == 'rec':
        d['v'] = gen_rec(rng, 0)
    elif k == 'cb':
        v = values.gen_value(rng, max_depth=2, special_floats=False, tuples=False, objects=False)
        if v[0] not in ('list', 'dict'):
            v = ['dict', [['a', v], ['b', ['list', [['int', 1]]]]]]
        d['v'] = v
    return d


def gen_dna(rng):
    meta = [[rng.choice(['m1', 'm2']), rng.randint(0, 9), rng.random() < 0.5]
            for _ in range(rng.randint(0, 2))]
    user = [[rng.choice(['u1', 'u2']), rng.randint(0, 9), rng.random() < 0.5]
            for _ in range(rng.randint(0, 2))]
    return ['dna', rng.randint(0, 999), meta, user]


def gen_functor(rng):
    kw = {}
    for name in ('a', 'b', 'c'):
        if rng.random() < 0.5:
            kw[name] = rng.randint(0, 5)
    return ['functor', kw]


def gen_plain_dict(rng):
    items, seen = [], set()
    for _ in range(rng.randint(0, 4)):
        k = rng.choice(['a', 'b', 'c', 'x', 1, 2, 'k1'])
        if k not in seen:
            seen.add(k)
            items.append([k, gen_plain(rng, 1)])
    return ['dict', items]


REC_KINDS = {'rec': Rec, 'rec2': Rec2, 'quiet': Quiet, 'recq': RecQ}


def gen_rec(rng, depth):
    d = {'a': ['int', rng.randint(0, 5)]}
    if depth < 2 and rng.random() < 0.6:
        c = gen_rec_leaf(rng, depth + 1)
        d['child' if c[0] in ('rec', 'rec2') else 'v'] = c     # `child` is typed Object(Rec)
    if rng.random() < 0.5:
        d['box'] = ['dict', [['p', ['int', 1]], ['q', ['list', [['int', 2], ['int', 3]]]]]]
    if 'v' not in d and rng.random() < 0.5:
        d['v'] = values.gen_value(rng, max_depth=1, special_floats=False, tuples=False, objects=False)
    if rng.random() < 0.6:
        d['w'] = ['list', [gen_plain(rng, 1) for _ in range(rng.randint(0, 3))]]
    return ['rec2', d]


def gen_rec_leaf(rng, depth):
    if depth < 2 and rng.random() < 0.4:
        return gen_rec(rng, depth)
    d = {}
    if rng.random() < 0.7:
        d['v'] = gen_plain(rng, 1)
        if depth < 2 and rng.random() < 0.3:
            d['v'] = gen_rec_leaf(rng, depth + 1)
    if rng.random() < 0.5:
        d['w'] = ['list', [gen_plain(rng, 1) for _ in range(rng.randint(0, 2))]]
    # 'quiet': a class without a change handler; 'recq': a subclass of it that adds one
    return [rng.choice(['rec', 'rec', 'quiet', 'recq', 'recq']), d]


def gen_value_arg(rng, prop):
    """Argument value descriptor for a write."""
    if prop == 'C02':
        return gen_plain(rng)
    r = rng.random()
    if r < 0.03 and prop in ('C01', 'C03', 'C07', 'C08'):
        return ['root_move', rng.randint(0, 3)]
    if r < 0.08:
        return ['attached', rng.randint(0, 3), rng.randint(0, 9)]
    if r < 0.13:
        return ['missing']
    if prop == 'C03':
        k = rng.random()
        if k < 0.12:
            which = rng.choice(['pd', 'pl', 'ro', 'ro', 'rl', 'mn'])
            if which in ('ro', 'rl', 'mn'):
                return ['typed', which, rng.choice([False, True, 'scoped', 'scoped'])]
            return ['typed', which, rng.random() < 0.6]
        if k < 0.3:
            return ['int', rng.choice([-1, 0, 3, 9, 10, 60])]
        if k < 0.45:
            return ['str', rng.choice(['p', 'q', 'zz', 'u', 'w'])]
        if k < 0.55:
            return ['none']
        if k < 0.7:
            return values.gen_leaf(rng)
        if k < 0.75:
            return ['leaf', {'x': 11}]            # violates Leaf.x range
        if k < 0.85:
            return ['list', [['int', rng.randint(-2, 9)] for _ in range(rng.randint(0, 5))]]
        if k < 0.9:
            return ['tuple', [['int', 1], ['str', 's']]]
        return ['dict', [['k', ['int', 2]]]]
    if prop == 'C09':
        if r < 0.2:
            return ['oneof', [1, 2, 3]]      # a search-space placeholder (pure symbolic)
        if r < 0.5:
            return gen_plain(rng)
        if r < 0.7:
            return gen_rec_leaf(rng, 1)
        return values.gen_value(rng, max_depth=2, special_floats=False, tuples=False, objects=False)
    return values.gen_value(rng, max_depth=2, special_floats=False, tuples=rng.random() < 0.2,
                            tuple_prims=True)


def gen_op(rng, prop):
    kinds = LIST_OPS + DICT_OPS + OBJ_OPS * 3 + ANY_OPS
    if prop == 'C02':
        kinds = LIST_OPS + DICT_OPS + ['rebind', 'rebind']
    elif prop == 'C09':
        kinds = ['l_setitem', 'l_delitem', 'l_append', 'l_insert', 'l_extend', 'l_pop',
                 'd_setitem', 'd_setattr', 'd_delitem', 'd_pop', 'd_update', 'd_setdefault',
                 'o_setattr', 'o_setattr', 'rebind', 'rebind', 'rebind']
    elif prop == 'C03':
        kinds = LIST_OPS + DICT_OPS + OBJ_OPS * 4 + ['rebind'] * 4
    elif prop == 'C08':
        kinds = LIST_OPS + DICT_OPS + OBJ_OPS * 3 + ['rebind'] * 3 + \
            ['seal', 'seal', 'unseal', 'accessor_on', 'accessor_off']
    elif prop == 'C07':
        kinds = kinds + ['clone', 'clone_shallow', 'copy_copy', 'deepcopy'] * 2 + \
            ['dna_meta', 'dna_meta', 'dna_user', 'fn_rebind', 'fn_rebind']
    k = rng.choice(kinds)
    op = {'k': k, 't': [rng.randint(0, 3), rng.randint(0, 11)], 'a': {}}
    a = op['a']
    if k in ('l_setitem', 'l_delitem', 'l_pop', 'l_insert'):
        a['i'] = gen_index(rng)
    if k in ('l_setitem', 'l_append', 'l_insert', 'd_setitem', 'd_setattr', 'o_setattr',
             'd_setdefault'):
        a['v'] = gen_value_arg(rng, prop)
    if k in ('l_setslice', 'l_getslice'):
        if rng.random() < 0.5:
            a['s'] = [rng.choice([None, 0, 1, 2, -1, -2, 5, -7]), rng.choice([None, 0, 1, 3, -1, 9, -8]),
                      rng.choice([None, None, 1, 2, -1, -2, 3])]
        else:       # a step-1 window inside a short list (grow / same / shrink by the values given)
            st = rng.randint(0, 3)
            a['s'] = [st, st + rng.randint(0, 4), rng.choice([None, 1])]
    if k in ('l_setslice', 'l_extend', 'l_iadd', 'l_add'):
        a['vs'] = [gen_value_arg(rng, prop) for _ in range(rng.randint(0, 3))]
    if k in ('l_imul', 'l_mul'):
        a['n'] = rng.choice([0, 1, 2, 2, 3, -1])
    if k == 'l_remove':
        a['i'] = gen_index(rng)         # remove the value found at this index (or a literal)
        a['v'] = gen_plain(rng, 2)
    if k == 'l_sort':
        a['reverse'] = rng.random() < 0.5
        a['key'] = rng.choice([None, None, 'size', 'const', 'numeric'])
    if k in ('d_setitem', 'd_setattr', 'd_delitem', 'd_pop', 'd_setdefault', 'o_setattr'):
        a['key'] = gen_key(rng)
        if a.get('v') and a['v'][0] == 'typed':
            a['key'] = ['new', a['v'][1]]       # aim the typed value at the field it fits
    if k == 'd_pop':
        a['default'] = rng.random() < 0.5
    if k in ('d_update', 'd_ior'):
        a['items'] = [[gen_key(rng, dotted=prop != 'C09'), gen_value_arg(rng, prop)]
                      for _ in range(rng.randint(0, 3))]
        a['form'] = rng.choice(['dict', 'pairs', 'kwargs'])
    if k == 'rebind':
        a['paths'] = []
        for _ in range(rng.randint(1, 4)):
            v = gen_value_arg(rng, prop)
            if rng.random() < 0.12:
                v = ['insertion', v]
            pth = [gen_key(rng) if rng.random() < 0.6 else gen_index(rng)
                   for _ in range(rng.randint(1, 3))]
            if v[0] == 'typed':
                pth = pth[:-1] + [['new', v[1]]]
            a['paths'].append([pth, v])
        if rng.random() < 0.2:
            # a batch of item updates / insertions on one (possibly long) list
            a['paths'] = []
            for i in rng.sample(range(0, 14), rng.randint(2, 3)):
                v = gen_value_arg(rng, prop)
                if rng.random() < 0.4:
                    v = ['insertion', v]
                a['paths'].append([[['abs', i]], v])
        a['notify_parents'] = rng.random() < 0.85
        a['skip_notification'] = rng.choice([None, None, None, True, False])
        a['reject_at'] = rng.randint(0, 3) if rng.random() < 0.15 else None
    if k == 'twin_assign':
        a['i'] = rng.randint(0, 7)
        a['how'] = rng.choice(['item', 'item', 'rebind'])
    if k == 'construct':
        a['v'] = gen_value_arg(rng, prop)
        a['shape'] = rng.choice(['obj_twice', 'obj_nested', 'obj_pos', 'dict_twice', 'list_twice',
                                 'obj_child'])
    if k == 'rebind_fn':
        a['what'] = rng.choice(['inc_ints', 'upper_strs', 'noop'])
    if k in ('dna_meta', 'dna_user'):
        a['key'] = rng.choice(['m1', 'm2', 'u1', 'extra'])
        a['val'] = rng.randint(0, 9)
        a['cloneable'] = rng.random() < 0.6
    if k == 'fn_rebind':
        a['name'] = rng.choice(['a', 'b', 'c'])
        a['val'] = rng.choice([0, 2, 3, 7, None])
    # scoped flags around the op
    scopes = []
    if prop in ('C01', 'C03', 'C07', 'C08', 'C09') and rng.random() < (0.5 if prop == 'C08' else 0.3):
        for _ in range(rng.randint(1, 3)):
            name = rng.choice(sorted(SCOPES))
            if prop == 'C01' and rng.random() < 0.5:
                name = 'notify_on_change'      # C01's own fault dimension: phases removed by flags
            if prop == 'C08':
                name = rng.choice(['as_sealed', 'allow_writable_accessors', 'as_sealed',
                                   'notify_on_change'])
            if prop == 'C03':
                name = rng.choice(['allow_partial', 'notify_on_change', 'enable_type_check'])
                if name == 'enable_type_check':
                    name = 'allow_partial'       # property quantifies over type check ON
            if prop in ('C07', 'C09') and name == 'enable_type_check':
                # with type checking off a typed container may hold anything and
                # the library's own getters assert; these properties do not
                # quantify over that mode
                name = 'notify_on_change'
            if name in ('notify_on_change', 'enable_type_check'):
                val = rng.random() < 0.4
            else:
                val = rng.choice([True, False, None])
            scopes.append([name, val])
    op['scopes'] = scopes
    return op


def gen_case(streams: Streams, tier: str, prop='C01') -> dict:
    cfg = streams.get('config')
    ops_rng = streams.get('ops')
    nroots = cfg.randint(1, 3 if prop != 'C02' else 2)
    roots = [gen_root(cfg, prop) for _ in range(nroots)]
    n = ops_rng.randint(3, 14 if tier == 'quick' else 30)
    allops = [gen_op(ops_rng, prop) for _ in range(n * 2)]
    # swarm: enable a random subset of op kinds per run
    kinds = sorted({o['k'] for o in allops})
    keep = {k for k in kinds if ops_rng.random() < 0.7}
    ops = [o for o in allops if o['k'] in keep][:n] or allops[:n]
    f = streams.get('faults')
    faults = {}
    if prop in ('C01', 'C09', 'C07') and f.random() < 0.3:
        faults['raise_in_handler'] = f.randint(1, 6)     # n-th handler invocation raises
    case = {'prop': prop, 'roots': roots, 'ops': ops, 'faults': faults,
            'noise': streams.sub('noise') % (2 ** 31)}
    if prop == 'C08' and cfg.random() < 0.1:
        case['mixed_seal'] = True
    return case


# ---------------------------------------------------------------------------
# forest


class HandlerFault(Exception):
    pass


class Forest:
    def __init__(self, case):
        self.case = case
        self.roots = []          # live roots
        self.meta = []           # per root: dict(kind=...)
        self.handler_calls = 0
        self.raise_at = case.get('faults', {}).get('raise_in_handler')
        self.events = []         # (receiver id, {path str: (old, new)})
        self.unattributed = set()   # indices into events whose receiver could not be derived
        self.fault_fired = 0
        self.moved = []          # indices of roots handed over as arguments by the current op
        self.current_root = None

    def callback_for(self, holder):
        """A change callback for a Dict/List.  Clones of the container carry the
        same callback object, so the receiver is derived from the event itself:
        absolute path of an updated field minus its key relative to the receiver."""
        def cb(updates):
            recv = holder[0]
            for rel, u in updates.items():
                try:
                    n = len(u.path.keys) - len(rel.keys)
                    root = u.target.sym_root
                    recv = pg.KeyPath(list(u.path.keys[:n])).query(root) if n else root
                except Exception:  # pylint: disable=broad-except
                    # the updated node was moved / detached later in the same batch:
                    # the receiver cannot be told apart from its clones any more
                    self.unattributed.add(len(self.events))
                break
            self._on_event(recv, updates)
        return cb

    def _on_event(self, receiver, updates):
        self.handler_calls += 1
        self.events.append((id(receiver) if receiver is not None else None,
                            {str(k): (u.old_value, u.new_value) for k, u in updates.items()}))
        if self.raise_at is not None and self.handler_calls == self.raise_at:
            self.fault_fired += 1
            raise HandlerFault(f'handler invocation {self.handler_calls}')

    def build_root(self, d):
        k = d['kind']
        fl = d.get('flags') or {}
        kw = {}
        if fl.get('accessor_writable') is False:
            kw['accessor_writable'] = False
        if k in ('val', 'nodes', 'dna', 'functor', 'mixed'):
            v = values.build(d['v'])
            if isinstance(v, (pg.List, pg.Dict)) and kw:
                v = type(v)(v, **kw)
        elif k == 'node':
            if d.get('partial'):
                desc = dict(d['v'][1])
                desc.pop('req', None)
                with pg.allow_partial(True):
                    v = Node.partial(**{kk: values.build(x) for kk, x in desc.items()})
            else:
                v = values.build(d['v'])
        elif k in TYPED_SPECS:
            plain = values.build(d['v'], symbolic=False)
            cls = pg.List if k.startswith('TL') else pg.Dict
            v = cls(plain, value_spec=spec_of(k), **kw)
        elif k == 'rec':
            v = self.build_rec(d['v'])
        elif k == 'cb':
            plain = values.build(d['v'], symbolic=False)
            holder = [None]
            cls = pg.List if isinstance(plain, list) else pg.Dict
            v = cls(plain, onchange_callback=self.callback_for(holder), **kw)
            holder[0] = v
        else:
            raise ValueError(k)
        if fl.get('sealed') and isinstance(v, pg.Symbolic):
            v.seal(True)
        return v

    def build_rec(self, desc):
        kind, d = desc
        kw = {}
        for kk, x in d.items():
            if x[0] in REC_KINDS:
                kw[kk] = self.build_rec(x)
            else:
                kw[kk] = values.build(x, symbolic=False)
        return REC_KINDS[kind](**kw)

    def containers(self, root):
        out = []
        for node, parent, key, path in values.walk(root):
            if isinstance(node, (pg.List, pg.Dict, pg.Object)) and not isinstance(node, pg.Ref):
                if parent is None and node is not root:
                    continue        # inside a tuple: not addressable by selector
                out.append(node)
        return out

    def select(self, sel):
        if not self.roots:
            return None, None
        r = sel[0] % len(self.roots)
        cs = self.containers(self.roots[r])
        if not cs:
            return r, None
        # pre-order (walk is a stack: sort by path for a canonical order)
        cs.sort(key=lambda n: [str(k) for k in n.sym_path.keys])
        return r, cs[sel[1] % len(cs)]


def materialize(forest, vdesc, plain_ok=True):
    """Argument descriptor -> a fresh Python value.  Building the argument is
    the caller's business, not part of the operation under test: the scoped
    flags that wrap the operation are neutralised while it is built (the
    library refuses to construct objects under as_sealed(True) etc.)."""
    with pg.as_sealed(False), pg.allow_writable_accessors(True), pg.allow_partial(None), \
            pg.enable_type_check(True), pg.notify_on_change(True):
        return _materialize(forest, vdesc)


def _materialize(forest, vdesc):
    if vdesc[0] == 'attached':
        if not forest.roots:
            return 0
        r, node = forest.select([vdesc[1], vdesc[2]])
        if node is None:
            return 0
        if node.sym_parent is None:
            # a root: inserting it by reference could build a cycle (excluded,
            # pyglove defines nothing for it); use an independent copy
            return node.clone(deep=True)
        return node             # attached elsewhere: the library must copy it
    if vdesc[0] == 'root_move':
        # a whole other tree, inserted by reference: it must move (no copy) and
        # stop being a root; if the write is rejected it must stay detached
        if len(forest.roots) < 2 or forest.current_root is None:
            return 0
        r = vdesc[1] % len(forest.roots)
        if r == forest.current_root or not isinstance(forest.roots[r], pg.Symbolic):
            return 0
        forest.moved.append(r)
        return forest.roots[r]
    if vdesc[0] == 'missing':
        return MISSING
    if vdesc[0] == 'insertion':
        return pg.Insertion(_materialize(forest, vdesc[1]))
    if vdesc[0] in REC_KINDS:
        return forest.build_rec(vdesc)
    if vdesc[0] == 'typed':
        return values.build(vdesc)
    return values.build(vdesc, symbolic=False)


def resolve_key(container, kd):
    if kd[0] == 'new':
        return kd[1]
    if isinstance(container, pg.Object):
        keys = list(container.sym_keys())
        decl = [str(k) for k in type(container).__schema__.keys()
                if isinstance(k, pg.typing.ConstStrKey)]
        keys = sorted(set(keys) | set(decl), key=str)
    else:
        keys = sorted(container.keys(), key=str) if isinstance(container, dict) else []
    if not keys:
        return 'a'
    return keys[kd[1] % len(keys)]


def resolve_index(lst, idesc):
    n = len(lst)
    if idesc[0] == 'existing':
        return idesc[1] % n if n else 0
    if idesc[0] == 'neg':
        return -idesc[1]
    return idesc[1]


def resolve_path_index(lst, idesc):
    """Index inside a rebind path: in range, or past the end (append)."""
    k = resolve_index(lst, idesc)
    n = len(lst)
    if k < 0:
        k = k + n if -n <= k else 0
    return k


def resolve_path(forest, node, path_desc):
    """Walks a generated path below `node`; returns list of real keys."""
    keys = []
    cur = node
    for comp in path_desc:
        if isinstance(cur, (pg.Dict, pg.Object)):
            k = resolve_key(cur, comp if comp[0] in ('existing', 'new') else ['existing', comp[1]])
        elif isinstance(cur, pg.List):
            if comp[0] in ('existing', 'neg', 'abs'):
                k = resolve_path_index(cur, comp)   # canonical: one slot, one key
            else:
                k = resolve_index(cur, ['existing', 0] if comp[0] == 'new' else ['existing', comp[1]])
            if comp[0] == 'new':
                k = len(cur) + 3          # past the end: append semantics
        else:
            break
        keys.append(k)
        try:
            cur = cur.sym_getattr(k) if isinstance(cur, pg.Symbolic) and cur.sym_hasattr(k) else None
        except Exception:  # pylint: disable=broad-except
            cur = None
        if cur is None:
            break
    return keys


# ---------------------------------------------------------------------------
# executing one operation on the real forest


CLONE_OPS_ALL = ('clone', 'clone_shallow', 'copy_copy', 'deepcopy', 'json_rt', 'pickle_rt',
                 'seal', 'unseal')


class Outcome:
    __slots__ = ('status', 'result', 'exc', 'new_roots', 'target', 'root_index', 'written',
                 'skipped', 'batch', 'notify_parents', 'skip_notification', 'target_path',
                 'complex_batch')

    def __init__(self):
        self.status = 'skipped'
        self.result = None
        self.exc = None
        self.new_roots = []
        self.target = None
        self.root_index = None
        self.written = None       # list of absolute key lists the op writes (when known)
        self.skipped = False
        self.batch = False
        self.notify_parents = True
        self.skip_notification = None
        self.target_path = None
        self.complex_batch = False


def execute(forest, op, mirror=None):
    """Runs op on the real forest.  `mirror`: optional dict root_index -> plain
    Python twin (C02); the same operation is applied to it."""
    out = Outcome()
    r, t = forest.select(op['t'])
    if t is None:
        return out
    out.target, out.root_index = t, r
    forest.current_root = r
    del forest.moved[:]
    out.target_path = list(t.sym_path.keys)
    k, a = op['k'], op['a']
    if k.startswith('l_') and not isinstance(t, pg.List):
        return out
    if k.startswith('d_') and not isinstance(t, pg.Dict):
        return out
    if k.startswith('o_') and not isinstance(t, pg.Object):
        return out
    if k not in CLONE_OPS_ALL and not k.startswith('dna_'):
        # the inside of a DNA (value / children / metadata containers) is managed by
        # the DNA class itself; generic container mutators are not aimed at it
        p = t
        while p is not None:
            if isinstance(p, pg.DNA):
                return out
            p = p.sym_parent
    fn = _OPS[k]
    scopes = [SCOPES[name](val) for name, val in op.get('scopes', [])]
    try:
        for s in scopes:
            s.__enter__()
        try:
            out.result = fn(forest, t, a, out)
            out.status = 'ok' if not out.skipped else 'skipped'
        except (HandlerFault, pg.WritePermissionError, KeyError, IndexError, TypeError,
                ValueError, AttributeError, NotImplementedError, AssertionError,
                RecursionError) as e:
            out.status = 'raised'
            out.exc = e
    finally:
        for s in reversed(scopes):
            s.__exit__(None, None, None)
    return out


def _v(forest, a, name='v'):
    return materialize(forest, a[name])


def op_l_setitem(f, t, a, out):
    i = resolve_index(t, a['i'])
    out.written = [out.target_path + [i + len(t) if -len(t) <= i < 0 else i]]
    t[i] = _v(f, a)


def op_l_setslice(f, t, a, out):
    out.batch = True
    s = slice(*a['s'])
    t[s] = [materialize(f, x) for x in a['vs']]


def op_l_getslice(f, t, a, out):
    return list(t[slice(*a['s'])])


def op_l_delitem(f, t, a, out):
    i = resolve_index(t, a['i'])
    out.written = [out.target_path + [i + len(t) if -len(t) <= i < 0 else i]]
    del t[i]


def op_l_append(f, t, a, out):
    out.written = [out.target_path + [len(t)]]
    t.append(_v(f, a))


def op_l_insert(f, t, a, out):
    i = resolve_index(t, a['i'])
    out.written = [out.target_path + [min(max(i, -len(t)) % max(len(t), 1) if i < 0 else i, len(t))]]
    t.insert(i, _v(f, a))


def op_l_extend(f, t, a, out):
    vs = [materialize(f, x) for x in a['vs']]
    out.written = [out.target_path + [len(t) + j] for j in range(len(vs))]
    out.batch = True
    t.extend(vs)


def op_l_pop(f, t, a, out):
    i = resolve_index(t, a['i'])
    out.written = [out.target_path + [i % len(t) if len(t) and -len(t) <= i < len(t) else i]]
    return t.pop(i)


def op_l_remove(f, t, a, out):
    i = resolve_index(t, a['i'])
    if len(t) and a['i'][0] == 'existing':
        v = t.sym_getattr(i)
    else:
        v = materialize(f, a['v'])
    t.remove(v)


def op_l_clear(f, t, a, out):
    t.clear()


SORT_KEYS = {
    # total functions of any element: ties are frequent, elements stay distinguishable
    'size': lambda x: len(x) if isinstance(x, (list, dict, str)) else -1,
    'const': lambda x: 0,
    'numeric': lambda x: float(x) if isinstance(x, (int, float)) and not isinstance(x, bool)
    else (1.0 if x is True else 0.0),
}


def op_l_sort(f, t, a, out):
    key = SORT_KEYS.get(a.get('key'))
    t.sort(key=key, reverse=a.get('reverse', False))


def op_l_reverse(f, t, a, out):
    t.reverse()


def op_l_iadd(f, t, a, out):
    out.batch = True
    vs = [materialize(f, x) for x in a['vs']]
    t += vs


def op_l_imul(f, t, a, out):
    out.batch = True
    if len(t) * max(a['n'], 1) > 16:
        out.skipped = True          # keep trees small
        return
    t *= a['n']


def op_l_add(f, t, a, out):
    r = t + [materialize(f, x) for x in a['vs']]
    out.new_roots.append(r)
    return r


def op_l_mul(f, t, a, out):
    if len(t) * max(a['n'], 1) > 16:
        out.skipped = True
        return None
    r = t * a['n']
    out.new_roots.append(r)
    return r


def op_l_copy(f, t, a, out):
    r = t.copy()
    out.new_roots.append(r)
    return r


def op_d_setitem(f, t, a, out):
    k = resolve_key(t, a['key'])
    out.written = [out.target_path + [k]]
    t[k] = _v(f, a)


def op_d_setattr(f, t, a, out):
    k = resolve_key(t, a['key'])
    if not isinstance(k, str) or not k.isidentifier() or k.startswith('_'):
        out.skipped = True
        return
    out.written = [out.target_path + [k]]
    setattr(t, k, _v(f, a))


def op_d_delitem(f, t, a, out):
    k = resolve_key(t, a['key'])
    out.written = [out.target_path + [k]]
    del t[k]


def op_d_pop(f, t, a, out):
    k = resolve_key(t, a['key'])
    out.written = [out.target_path + [k]]
    if a.get('default'):
        return t.pop(k, 'dflt')
    return t.pop(k)


def op_d_popitem(f, t, a, out):
    return t.popitem()


def op_d_clear(f, t, a, out):
    t.clear()


def _update_arg(f, t, a):
    items = [(resolve_key(t, kd), materialize(f, vd)) for kd, vd in a['items']]
    form = a.get('form', 'dict')
    if form == 'kwargs' and not all(isinstance(k, str) and k.isidentifier() for k, _ in items):
        form = 'dict'
    return form, items


def op_d_update(f, t, a, out):
    form, items = _update_arg(f, t, a)
    out.written = [out.target_path + [k] for k, _ in items]
    out.batch = True
    if form == 'dict':
        t.update(dict(items))
    elif form == 'pairs':
        t.update(items)
    else:
        t.update(**dict(items))


def op_d_ior(f, t, a, out):
    out.batch = True
    form, items = _update_arg(f, t, a)
    t |= dict(items)


def op_d_setdefault(f, t, a, out):
    k = resolve_key(t, a['key'])
    out.written = [out.target_path + [k]]
    return t.setdefault(k, _v(f, a))


def op_d_copy(f, t, a, out):
    r = t.copy()
    out.new_roots.append(r)
    return r


def op_o_setattr(f, t, a, out):
    k = resolve_key(t, a['key'])
    if not isinstance(k, str) or not k.isidentifier() or k.startswith('_'):
        out.skipped = True
        return
    out.written = [out.target_path + [k]]
    setattr(t, k, _v(f, a))


def op_rebind(f, t, a, out):
    pairs = {}
    written = []
    for pd, vd in a['paths']:
        keys = resolve_path(f, t, pd)
        if not keys:
            continue
        v = materialize(f, vd)
        wkeys = list(keys)
        try:
            parent = pg.KeyPath(keys[:-1]).query(t) if len(keys) > 1 else t
            if isinstance(v, pg.Insertion) and not isinstance(parent, pg.List) and \
                    f.case.get('prop') != 'C02':
                # an insertion marker only means something to a list; elsewhere it would be
                # stored as an opaque holder of its value (and of a cycle, if the value is
                # an ancestor) - not a history the properties speak about
                v = v.value
        except Exception:  # pylint: disable=broad-except
            pass
        pairs[pg.KeyPath(keys)] = v
        try:
            parent = pg.KeyPath(keys[:-1]).query(t) if len(keys) > 1 else t
            if isinstance(parent, pg.List) and isinstance(wkeys[-1], int) and wkeys[-1] > len(parent):
                wkeys[-1] = len(parent)       # past the end: appended
        except Exception:  # pylint: disable=broad-except
            pass
        written.append(out.target_path + wkeys)
    if f.case.get('prop') == 'C02':
        ks = [tuple(p.keys) for p in pairs]
        for i, p in enumerate(ks):
            for j, q in enumerate(ks):
                if i != j and p[:len(q)] == q:
                    out.skipped = True      # overlapping paths: order-dependent batch
                    return
        for kp, v in pairs.items():
            if isinstance(v, pg.Insertion) or v is MISSING:
                try:
                    parent = kp.parent.query(t) if len(kp) > 1 else t
                except Exception:  # pylint: disable=broad-except
                    parent = None
                if not isinstance(parent, pg.List) or v is MISSING or \
                        not isinstance(kp.key, int):
                    out.skipped = True
                    return
    if a.get('reject_at') is not None and pairs and f.case.get('prop') != 'C02':
        # fault: make one element of the batch unacceptable (a key that is not
        # a str/int is rejected by every container)
        ks = sorted(pairs, key=str)
        bad = ks[a['reject_at'] % len(ks)]
        pairs[bad] = _Unacceptable()
    out.written = written
    out.batch = True
    ks = [tuple(w) for w in written]
    out.complex_batch = any(
        i != j and (p[:len(q)] == q or (p[:-1] == q[:-1] and isinstance(p[-1], int)))
        for i, p in enumerate(ks) for j, q in enumerate(ks))
    out.notify_parents = a.get('notify_parents', True)
    out.skip_notification = a.get('skip_notification')
    t.rebind(pairs, raise_on_no_change=False, notify_parents=out.notify_parents,
             skip_notification=out.skip_notification)


class _Unacceptable:
    """A value no typed field accepts (and that untyped containers store)."""

    def __eq__(self, other):
        return isinstance(other, _Unacceptable)

    def __ne__(self, other):
        return not isinstance(other, _Unacceptable)

    def __hash__(self):
        return 7


def op_rebind_fn(f, t, a, out):
    what = a['what']

    def fn(k, v, p):
        if what == 'inc_ints' and isinstance(v, int) and not isinstance(v, bool):
            return v + 1
        if what == 'upper_strs' and isinstance(v, str):
            return v.upper()
        return v
    t.rebind(fn, raise_on_no_change=False)


def op_construct(f, t, a, out):
    """A new root built by a constructor that is handed the same value for
    several slots (directly and inside plain containers)."""
    x = _v(f, a)
    shape = a['shape']
    if shape == 'obj_twice':
        r = values.Rec(v=x, w=[x])
    elif shape == 'obj_nested':
        r = values.Rec(v=[x, {'k': x}], w=[x, 1])
    elif shape == 'obj_pos':
        r = values.Rec(x, [x, x])
    elif shape == 'dict_twice':
        r = pg.Dict(a=x, b=x, c=[x])
    elif shape == 'list_twice':
        r = pg.List([x, x, {'k': x}])
    else:
        r = values.Rec2(v=x, child=values.Rec(v=x), box={'p': x})
    out.new_roots.append(r)
    return r


def op_twin_assign(f, t, a, out):
    """Copies one field from a tree into its deep clone ("take this part of the base
    configuration over into the experiment"): the value is a member of the original,
    the receiving container is value-equal to the one it sits in, same path, same key."""
    root = t.sym_root
    with pg.as_sealed(False), pg.allow_partial(None):
        twin_root = root.clone(deep=True)
    out.new_roots.append(twin_root)
    t2 = twin_root.sym_get(t.sym_path) if t.sym_path else twin_root
    if isinstance(t, pg.List):
        if not len(t):
            return twin_root
        k = resolve_index(t, ['existing', a['i']])
        v = t.sym_getattr(k)
    else:
        k = resolve_key(t, ['existing', a['i']])
        if not t.sym_hasattr(k):
            return twin_root
        v = t.sym_getattr(k)
    if a['how'] == 'rebind':
        t2.rebind({k: v}, raise_on_no_change=False)
    elif isinstance(t2, pg.Object):
        if not isinstance(k, str) or not k.isidentifier():
            return twin_root
        setattr(t2, k, v)
    else:
        t2[k] = v
    return twin_root


def op_clone(f, t, a, out):
    r = t.clone(deep=True)
    out.new_roots.append(r)
    return r


def op_clone_shallow(f, t, a, out):
    r = t.clone(deep=False)
    out.new_roots.append(r)
    return r


def op_copy_copy(f, t, a, out):
    r = copy.copy(t)
    out.new_roots.append(r)
    return r


def op_deepcopy(f, t, a, out):
    r = copy.deepcopy(t)
    out.new_roots.append(r)
    return r


def op_json_rt(f, t, a, out):
    with pg.allow_partial(True):
        r = pg.from_json(pg.to_json(t), allow_partial=True)
    out.new_roots.append(r)
    return r


def op_pickle_rt(f, t, a, out):
    if any(isinstance(n, (pg.List, pg.Dict)) and n._onchange_callback is not None  # pylint: disable=protected-access
           for n, _, _, _ in values.walk(t)):
        out.skipped = True          # closures are not picklable
        return None
    r = pickle.loads(pickle.dumps(t))
    out.new_roots.append(r)
    return r


def op_dna_meta(f, t, a, out):
    if not isinstance(t, pg.DNA):
        out.skipped = True
        return
    t.set_metadata(a['key'], a['val'], cloneable=a['cloneable'])


def op_dna_user(f, t, a, out):
    if not isinstance(t, pg.DNA):
        out.skipped = True
        return
    t.set_userdata(a['key'], a['val'], cloneable=a['cloneable'])


def op_fn_rebind(f, t, a, out):
    if not isinstance(t, pg.Functor):
        out.skipped = True
        return
    v = MISSING if a['val'] is None else a['val']
    t.rebind({a['name']: v}, raise_on_no_change=False)


def op_seal(f, t, a, out):
    t.seal(True)


def op_unseal(f, t, a, out):
    p = t.sym_parent
    while p is not None:
        if p.is_sealed:
            # an unsealed node below a sealed ancestor: batches through the
            # ancestor are applied partially before they are refused (known
            # finding); generated only in the runs that opt in
            if not f.case.get('mixed_seal'):
                out.skipped = True
                return
            break
        p = p.sym_parent
    t.seal(False)


def op_accessor_on(f, t, a, out):
    t.set_accessor_writable(True)


def op_accessor_off(f, t, a, out):
    t.set_accessor_writable(False)


_OPS = {name[3:]: fn for name, fn in list(globals().items()) if name.startswith('op_')}


# ---------------------------------------------------------------------------
# snapshots


def snapshot(root):
    """(JSON string of the contents, identity map id -> path)."""
    try:
        js = json.dumps(_plain(root), sort_keys=False, default=repr)
    except Exception as e:  # pylint: disable=broad-except
        js = f'<unserializable {type(e).__name__}>'
    ids = {}
    if isinstance(root, pg.Symbolic):
        for node, parent, key, path in values.walk(root):
            ids.setdefault(id(node), tuple(repr(k) for k in path))
    return js, ids


_REF_TOKENS = {}       # id(target) -> (serial number, target kept alive); reset per run


def _ref_token(target):
    """Identity of a reference target as a number that does not depend on addresses:
    the order in which targets were first seen in this run."""
    ent = _REF_TOKENS.get(id(target))
    if ent is None or ent[1] is not target:
        ent = (len(_REF_TOKENS), target)
        _REF_TOKENS[id(target)] = ent
    return ent[0]


def _plain(v):
    """Contents as nested plain data with type tags (observed through the
    symbolic read API only)."""
    if isinstance(v, pg.Ref):
        return ['ref', _ref_token(v.value)]
    if isinstance(v, pg.List):
        return ['L', [_plain(x) for x in v.sym_values()]]
    if isinstance(v, pg.Dict):
        return ['D', [[repr(k), _plain(x)] for k, x in v.sym_items()]]
    if isinstance(v, pg.DNA):
        c = v.clone()
        return ['DNA', json.dumps(v.to_json(), sort_keys=True, default=repr),
                sorted((str(k), repr(x)) for k, x in v.userdata.items()),
                # what a clone of it carries over (cloneable metadata / userdata)
                sorted(str(k) for k in c.metadata.keys()), sorted(str(k) for k in c.userdata.keys())]
    if isinstance(v, pg.Functor):
        return ['F', type(v).__name__, [[k, _plain(x)] for k, x in v.sym_items()],
                sorted(v.specified_args), sorted(v.default_args), sorted(v.non_default_args)]
    if isinstance(v, pg.Object):
        return ['O', type(v).__name__, [[k, _plain(x)] for k, x in v.sym_items()]]
    if isinstance(v, tuple):
        return ['T', [_plain(x) for x in v]]
    if isinstance(v, list):
        return ['l', [_plain(x) for x in v]]
    if isinstance(v, dict):
        return ['d', [[repr(k), _plain(x)] for k, x in v.items()]]
    if v is MISSING or v == MISSING and not isinstance(v, (int, float, str)):
        return ['MISSING']
    if isinstance(v, float):
        return ['f', repr(v)]
    if isinstance(v, (int, str, bool)) or v is None:
        return v
    return ['?', type(v).__name__]


def to_python(v):
    """Symbolic containers -> plain list/dict (for C02 comparison)."""
    if isinstance(v, pg.List):
        return [to_python(x) for x in v.sym_values()]
    if isinstance(v, pg.Dict):
        return {k: to_python(x) for k, x in v.sym_items()}
    if isinstance(v, list):
        return [to_python(x) for x in v]
    if isinstance(v, dict):
        return {k: to_python(x) for k, x in v.items()}
    return v


# ---------------------------------------------------------------------------
# running a case


def run_case(case: dict, prop=None):
    prop = prop or case.get('prop', 'C01')
    _global_random.seed(case.get('noise', 0))
    del values.EVENT_LOG[:]
    forest = Forest(case)
    V = []
    faults, probes, states = {}, {}, []
    relaxed = 0
    log = []

    def bad(oracle, detail, msg, step):
        V.append(Violation(prop, oracle, f'{oracle}|{detail}', f'[step {step}] {msg}', step=step))

    # build the roots
    for d in case['roots']:
        try:
            forest.roots.append(forest.build_root(d))
            forest.meta.append({'kind': d['kind']})
        except Exception as e:  # pylint: disable=broad-except
            # an unbuildable root descriptor is a generator artefact
            probes['unbuildable_root'] = probes.get('unbuildable_root', 0) + 1
            log.append(['root-failed', type(e).__name__])
    if not forest.roots:
        return _result(prop, case, V, log, faults, probes, states, relaxed, 0)
    oracle = ORACLES[prop](forest, bad, probes, case)
    # hook recording classes into this forest
    values.EVENT_SINK[0] = forest._on_event
    _REF_TOKENS.clear()
    try:
        oracle.start()
        keep_alive = []
        n_ok = 0
        for step, op in enumerate(case['ops']):
            if V:
                break
            pre = [snapshot(r) for r in forest.roots]
            pre_nodes = [[n for n, _, _, _ in values.walk(r)] for r in forest.roots]
            keep_alive.append(pre_nodes)
            oracle.before(step, op, pre)
            del forest.events[:]
            forest.unattributed.clear()
            fired0 = forest.fault_fired
            out = execute(forest, op)
            if out.status == 'skipped':
                oracle.on_skipped(step, op)
                continue
            interrupted = forest.fault_fired > fired0
            if interrupted:
                faults['callback_raise'] = faults.get('callback_raise', 0) + 1
                relaxed = 1
            if op.get('scopes'):
                for name, val in op['scopes']:
                    if name == 'notify_on_change' and val is False:
                        faults['notify_disabled'] = faults.get('notify_disabled', 0) + 1
            if out.status == 'raised' and op['a'].get('reject_at') is not None:
                faults['rejected_write_in_batch'] = faults.get('rejected_write_in_batch', 0) + 1
            if out.status == 'ok':
                n_ok += 1
            for r in out.new_roots:
                if isinstance(r, pg.Symbolic) and len(forest.roots) < 6:
                    forest.roots.append(r)
                    forest.meta.append({'kind': 'derived'})
            # roots that were handed over and got attached are no longer roots
            gone = sorted({m for m in forest.moved
                           if m < len(forest.roots) and isinstance(forest.roots[m], pg.Symbolic)
                           and forest.roots[m].sym_parent is not None}, reverse=True)
            if gone:
                probes['root_moved_into_tree'] = probes.get('root_moved_into_tree', 0) + 1
                tgt = forest.roots[out.root_index]
                for m in gone:
                    del forest.roots[m]
                    del forest.meta[m]
                    del pre[m]
                    del pre_nodes[m]
                out.root_index = next(i for i, x in enumerate(forest.roots) if x is tgt)
            elif forest.moved and out.status == 'raised':
                probes['rejected_root_move'] = probes.get('rejected_root_move', 0) + 1
            post = [snapshot(r) for r in forest.roots]
            log.append([op['k'], out.status, type(out.exc).__name__ if out.exc else None,
                        small_hash([p[0] for p in post])])
            states.append(small_hash([[p[0] for p in post], [s for s in op.get('scopes', [])]]))
            oracle.after(step, op, out, pre, post, pre_nodes, interrupted)
        depth_ok = n_ok
        if not V:
            oracle.finish(len(case['ops']))
    finally:
        values.EVENT_SINK[0] = None
    return _result(prop, case, V, log, faults, probes, states, relaxed, depth_ok)


def _result(prop, case, V, log, faults, probes, states, relaxed, n_ok):
    return {
        'violations': V,
        'digest': digest([log, [v.sig for v in V]]),
        'ntkey': digest([[l[0], l[1], l[2]] for l in log if l and l[0] != 'root-failed']),
        'nontrivial': n_ok >= 2,
        'faults': faults, 'probes': probes, 'steps': len(log), 'sim_time': 0.0,
        'states': states, 'interleaving': None, 'relaxed': relaxed,
        'summary': {'prop': prop, 'roots': [r['kind'] for r in case['roots']],
                    'ops': [[l[0], l[1]] for l in log[:30]]},
    }


# ---------------------------------------------------------------------------
# oracles


class OracleBase:
    def __init__(self, forest, bad, probes, case):
        self.forest, self.bad, self.probes, self.case = forest, bad, probes, case

    def start(self):
        pass

    def before(self, step, op, pre):
        pass

    def after(self, step, op, out, pre, post, pre_nodes, interrupted):
        pass

    def on_skipped(self, step, op):
        pass

    def finish(self, step):
        pass

    # shared pieces ---------------------------------------------------------

    def check_structure(self, step, op, out, interrupted, pre_nodes):
        """C01: well-formed forest, no node in two places, removed nodes detached."""
        f = self.forest
        seen = {}
        flags = _op_flags(op)
        for ri, root in enumerate(f.roots):
            if not isinstance(root, pg.Symbolic):
                continue
            if interrupted and ri == out.root_index:
                continue      # re-indexing happens inside the interrupted notification
            errs = values.structure_errors(root)
            for code, msg in errs[:1]:
                self.bad(f'C01.{code}', f'{op["k"]}|{out.status}|{flags}',
                         f'after {op["k"]} ({out.status}) on root {out.root_index}: root {ri}: {msg}',
                         step)
                return False
            for node, parent, key, path in values.walk(root):
                if path and path[0] == '<tuple>':
                    continue      # inside a plain tuple: a leaf value, shared by shallow copies
                if id(node) in seen and seen[id(node)][0] != ri:
                    self.bad('C01.shared-node', f'{op["k"]}|{out.status}|{flags}',
                             f'one node object appears in root {seen[id(node)][0]} at '
                             f'{seen[id(node)][1]} and in root {ri} at {list(path)}', step)
                    return False
                seen.setdefault(id(node), (ri, list(path)))
        # removed / replaced nodes no longer claim a parent inside the tree they left
        if not interrupted:
            for ri, nodes in enumerate(pre_nodes):
                if ri >= len(f.roots):
                    continue
                for n in nodes:
                    if id(n) in seen or not isinstance(n, pg.Symbolic):
                        continue
                    p = n.sym_parent
                    if p is not None and id(p) in seen:
                        self.bad('C01.removed-still-attached', f'{op["k"]}|{out.status}|{flags}',
                                 f'{type(n).__name__} removed from root {ri} by {op["k"]} still '
                                 f'reports sym_parent = a live {type(p).__name__} at '
                                 f'{seen[id(p)][1]} (its own path {list(n.sym_path.keys)})', step)
                        return False
        return True

    def check_noninterference(self, step, op, out, pre, post):
        """Roots the step did not target keep contents and identities."""
        for ri in range(min(len(pre), len(post))):
            if ri == out.root_index:
                continue
            if pre[ri][0] != post[ri][0] or pre[ri][1] != post[ri][1]:
                self.bad('C07.interference', f'{op["k"]}|{out.status}',
                         f'{op["k"]} on root {out.root_index} changed root {ri}: '
                         f'{pre[ri][0][:200]} -> {post[ri][0][:200]}', step)
                return False
        return True


def _op_flags(op):
    fl = []
    for name, val in op.get('scopes', []):
        if name == 'notify_on_change' and val is False:
            fl.append('notify=off')
        elif name == 'enable_type_check' and val is False:
            fl.append('typecheck=off')
    return ','.join(sorted(set(fl))) or '-'


class C01Oracle(OracleBase):
    def after(self, step, op, out, pre, post, pre_nodes, interrupted):
        if not self.check_structure(step, op, out, interrupted, pre_nodes):
            return
        if out.status == 'raised' and isinstance(out.exc, HandlerFault):
            self.probes['handler_fault_propagated'] = self.probes.get('handler_fault_propagated', 0) + 1
        if out.status == 'raised' and isinstance(out.exc, (AssertionError, RecursionError,
                                                            AttributeError, NotImplementedError)) \
                and not isinstance(out.exc, HandlerFault):
            # not one of the library's documented rejections
            pass


ORACLES = {'C01': C01Oracle}


# ---------------------------------------------------------------------------
# driver interface


def shrink_candidates(case):
    if len(case['roots']) > 1:
        for i in range(len(case['roots'])):
            c = dict(case)
            c['roots'] = case['roots'][:i] + case['roots'][i + 1:]
            yield f'drop-root-{i}', c
    if case.get('faults'):
        c = dict(case)
        c['faults'] = {}
        yield 'no-faults', c
    for i, o in enumerate(case['ops']):
        if o.get('scopes'):
            c = dict(case)
            c['ops'] = [dict(x) for x in case['ops']]
            c['ops'][i]['scopes'] = []
            yield f'no-scopes-{i}', c


LIST_PARTS = [('ops',)]


QUICK_RUNS = {'C01': 30000, 'C02': 60000, 'C03': 16000, 'C07': 12000, 'C08': 20000, 'C09': 20000}
_BUDGET_PROP = ['C01']


def budget(tier, prop=None):
    if prop is not None:
        _BUDGET_PROP[0] = prop
    if tier == 'quick':
        return {'runs': QUICK_RUNS.get(_BUDGET_PROP[0], 24000), 'wall': 70, 'chunk': 100, 'selftest': 8, 'minimise_s': 60,
                'canary_runs': 24000, 'canary_wall': 120}
    return {'runs': 400000, 'wall': 900, 'chunk': 200, 'selftest': 24, 'minimise_s': 180,
            'canary_runs': 40000, 'canary_wall': 150}


RULE = ('Each run: 1-3 seeded roots (untyped values, typed objects/lists/dicts, recording '
        'objects, containers with callbacks) and a history of 3-14/30 operations drawn from a '
        'per-run random subset of ~45 operation kinds (list/dict/object mutators incl. in-place '
        'operators and slices, rebind by path dict / function / Insertion / MISSING_VALUE, '
        'clone/copy/deepcopy/JSON/pickle, seal/accessor flags), each optionally wrapped in 1-3 '
        'scoped flags, with rejected-element-in-batch and raising-handler faults; the property\'s '
        'oracle runs after every step. Non-trivial: >= 2 operations executed successfully. '
        'Distinct: digest of the (operation kind, outcome, exception class) sequence.')
DISTINCT_MEASURE = 'distinct_states = distinct (forest contents, scope wrapper) pairs visited'
COMPONENTS = {
    'real': ['pg.Dict / pg.List / pg.Object and every public mutator', 'Symbolic.rebind / clone / seal',
             'change notification (_notify_field_updates, _on_change, onchange_callback)',
             'value specs bound to typed containers', 'scoped flags (symbolic.flags)',
             'to_json/from_json, pickle, copy'],
    'stub': ['user classes (Leaf, Node, Rec, Rec2) and callbacks defined by the harness',
             'reference executors: Python list/dict (C02), unsealed deep copy (C08)'],
}
ASSUMPTIONS = [
    'one caller thread (pyglove documents no thread-safety for a shared symbolic tree)',
    'inserting a root into its own subtree (a cycle) is excluded',
    'after an injected handler exception, re-indexing/cache freshness of that one root is not '
    'asserted until its next successful notification',
]


# ---------------------------------------------------------------------------
# C02: pg.List / pg.Dict against Python list / dict


def _mnav(m, keys):
    for k in keys:
        m = m[k]
    return m


class C02Oracle(OracleBase):
    """The reference is the interpreter: a plain twin driven by the same op."""

    def start(self):
        self.mirrors = [values.build(d['v'], symbolic=False) for d in self.case['roots']]
        self.pending = None

    def before(self, step, op, pre):
        self.pending = None
        f = self.forest
        r, t = f.select(op['t'])
        if t is None:
            return
        k, a = op['k'], op['a']
        if (k.startswith('l_') and not isinstance(t, pg.List)) or \
                (k.startswith('d_') and not isinstance(t, pg.Dict)) or k.startswith('o_'):
            return
        try:
            m = _mnav(self.mirrors[r], list(t.sym_path.keys))
        except (KeyError, IndexError, TypeError):
            return
        res = {'status': 'ok', 'result': None, 'exc': None, 'new': None, 'skip': False}
        try:
            res['result'] = self._apply(k, a, t, m, res, r)
        except (IndexError, KeyError, ValueError, TypeError) as e:
            res['status'], res['exc'] = 'raised', e
        self.pending = (r, res)

    def _apply(self, k, a, t, m, res, r):
        f = self.forest
        mat = lambda d: values.build(d, symbolic=False)
        if k == 'l_setitem':
            m[resolve_index(t, a['i'])] = mat(a['v'])
        elif k == 'l_setslice':
            m[slice(*a['s'])] = [mat(x) for x in a['vs']]
        elif k == 'l_getslice':
            return m[slice(*a['s'])]
        elif k == 'l_delitem':
            del m[resolve_index(t, a['i'])]
        elif k == 'l_append':
            m.append(mat(a['v']))
        elif k == 'l_insert':
            m.insert(resolve_index(t, a['i']), mat(a['v']))
        elif k == 'l_extend':
            m.extend([mat(x) for x in a['vs']])
        elif k == 'l_pop':
            return m.pop(resolve_index(t, a['i']))
        elif k == 'l_remove':
            i = resolve_index(t, a['i'])
            v = copy.deepcopy(m[i]) if len(m) and a['i'][0] == 'existing' else mat(a['v'])
            m.remove(v)
        elif k == 'l_clear':
            m.clear()
        elif k == 'l_sort':
            key = SORT_KEYS.get(a.get('key'))
            if key is None:
                numeric = all(isinstance(x, (int, float, bool)) for x in m)
                if not numeric and (len({type(x) for x in m}) > 1 or any(
                        isinstance(x, (list, dict, type(None))) for x in m)):
                    res['skip'] = True      # mixed types without a key: partial reorder on TypeError
                    return None
            m.sort(key=key, reverse=a.get('reverse', False))
        elif k == 'l_reverse':
            m.reverse()
        elif k == 'l_iadd':
            m += [mat(x) for x in a['vs']]
        elif k == 'l_imul':
            if len(m) * max(a['n'], 1) > 16:
                res['skip'] = True
                return None
            # (a symbolic list cannot alias one child in two slots: copies)
            m[:] = [copy.deepcopy(x) for x in m * a['n']]
        elif k == 'l_add':
            res['new'] = copy.deepcopy(m + [mat(x) for x in a['vs']])
            return res['new']
        elif k == 'l_mul':
            if len(m) * max(a['n'], 1) > 16:
                res['skip'] = True
                return None
            res['new'] = [copy.deepcopy(x) for x in m * a['n']]
            return res['new']
        elif k == 'l_copy':
            res['new'] = copy.deepcopy(m)
            return res['new']
        elif k == 'd_setitem':
            m[resolve_key(t, a['key'])] = mat(a['v'])
        elif k == 'd_setattr':
            key = resolve_key(t, a['key'])
            if not isinstance(key, str) or not key.isidentifier() or key.startswith('_'):
                res['skip'] = True
                return None
            m[key] = mat(a['v'])
        elif k == 'd_delitem':
            del m[resolve_key(t, a['key'])]
        elif k == 'd_pop':
            key = resolve_key(t, a['key'])
            return m.pop(key, 'dflt') if a.get('default') else m.pop(key)
        elif k == 'd_popitem':
            return m.popitem()
        elif k == 'd_clear':
            m.clear()
        elif k in ('d_update', 'd_ior'):
            items = [(resolve_key(t, kd), mat(vd)) for kd, vd in a['items']]
            m.update(dict(items))
        elif k == 'd_setdefault':
            return m.setdefault(resolve_key(t, a['key']), mat(a['v']))
        elif k == 'd_copy':
            res['new'] = copy.deepcopy(m)
            return res['new']
        elif k == 'rebind':
            # documented extensions: index past the end appends, an insertion
            # marker inserts, the missing-value marker deletes a dict key
            paths = []
            for pd, vd in a['paths']:
                keys = resolve_path(f, t, pd)
                if keys:
                    paths.append((keys, vd))
            ks = [tuple(p) for p, _ in paths]
            for i, p in enumerate(ks):
                for j, q in enumerate(ks):
                    if i != j and p[:len(q)] == q:
                        res['skip'] = True      # overlapping / duplicate paths: order-dependent
                        return None
            if a.get('reject_at') is not None:
                res['skip'] = True
                return None
            if len(paths) > 1 and isinstance(m, list) and \
                    all(len(keys) == 1 and isinstance(keys[0], int) and 0 <= keys[0] < len(m)
                        and vd[0] != 'missing' for keys, vd in paths) and \
                    len({keys[0] for keys, _ in paths}) == len(paths):
                # item updates / insertions on the receiving list itself, all in range:
                # the indices refer to the list as it was before the call (the library
                # applies them from the largest index down for that reason)
                for keys, vd in sorted(paths, key=lambda p: p[0][0], reverse=True):
                    if vd[0] == 'insertion':
                        m.insert(keys[0], mat(vd[1]))
                    else:
                        m[keys[0]] = mat(vd)
                self.probes['list_batches_judged'] = self.probes.get('list_batches_judged', 0) + 1
                return None
            if len(paths) > 1:
                parents = [tuple(keys[:-1]) for keys, _ in paths]
                if len(set(parents)) < len(parents) or \
                        any(vd[0] in ('insertion', 'missing') for _, vd in paths):
                    # several writes into one container / shifting markers in a
                    # batch: the order rules of rebind are not list/dict semantics
                    res['skip'] = True
                    return None
            for keys, vd in paths:
                parent = _mnav(m, keys[:-1])
                key = keys[-1]
                if vd[0] == 'insertion':
                    if not isinstance(parent, list):
                        res['skip'] = True
                        return None
                    parent.insert(min(key, len(parent)), mat(vd[1]))
                elif vd[0] == 'missing':
                    res['skip'] = True
                    return None
                elif isinstance(parent, list):
                    if key >= len(parent):
                        parent.append(mat(vd))
                    else:
                        parent[key] = mat(vd)
                else:
                    parent[key] = mat(vd)
        else:
            res['skip'] = True
        return None

    def on_skipped(self, step, op):
        # the real side did not run the op: drop whatever the twin did
        self.mirrors = [to_python(r) for r in self.forest.roots]
        self.pending = None

    def after(self, step, op, out, pre, post, pre_nodes, interrupted):
        if self.pending is None:
            self.mirrors = [to_python(r) for r in self.forest.roots]
            return
        r, res = self.pending
        k = op['k']
        if res['skip']:
            # the twin did not run this op: resynchronise it from the real tree
            self.mirrors[r] = to_python(self.forest.roots[r])
            for nr in out.new_roots:
                if isinstance(nr, pg.Symbolic) and len(self.mirrors) < len(self.forest.roots):
                    self.mirrors.append(to_python(nr))
            return
        detail = f'{k}'
        if res['status'] == 'raised':
            want = type(res['exc']).__name__
            if out.status != 'raised':
                self.bad('C02.no-error', f'{k}|{want}',
                         f'{k}{json.dumps(op["a"])[:200]}: Python raises {want} '
                         f'({res["exc"]}) but the symbolic container accepted the call', step)
                return
            got = type(out.exc).__name__
            if got != want and k != 'rebind':     # rebind's own path errors are not list/dict API
                self.bad('C02.error-class', f'{k}|{want}->{got}',
                         f'{k}{json.dumps(op["a"])[:200]}: Python raises {want}, symbolic '
                         f'container raises {got}: {out.exc}', step)
                return
        elif out.status == 'raised':
            self.bad('C02.spurious-error', f'{k}|{type(out.exc).__name__}',
                     f'{k}{json.dumps(op["a"])[:200]}: Python accepts the call, symbolic '
                     f'container raises {type(out.exc).__name__}: {out.exc}', step)
            return
        else:
            if k in ('l_pop', 'd_pop', 'd_setdefault', 'l_getslice', 'd_popitem'):
                got = to_python(out.result)
                if isinstance(got, tuple):
                    got = tuple(to_python(x) for x in got)
                if got != res['result']:
                    self.bad('C02.result', k, f'{k}{json.dumps(op["a"])[:200]} returned {got!r}, '
                             f'Python returns {res["result"]!r}', step)
                    return
            if res['new'] is not None:
                self.mirrors.append(res['new'])
        # read-backs of every root against its twin
        f = self.forest
        while len(self.mirrors) < len(f.roots):
            self.mirrors.append(to_python(f.roots[len(self.mirrors)]))
        for ri, root in enumerate(f.roots):
            m = self.mirrors[ri]
            why = self._compare(root, m)
            if why:
                self.bad('C02.contents', f'{detail}|{why[0]}',
                         f'after {k}{json.dumps(op["a"])[:200]} on root {out.root_index}: root {ri} '
                         f'{why[1]}', step)
                return

    def _compare(self, s, m, path='$'):
        if isinstance(m, list):
            if not isinstance(s, pg.List):
                return ('type', f'{path}: expected a list, found {type(s).__name__}')
            if len(s) != len(m):
                return ('len', f'{path}: len {len(s)} != {len(m)}; {to_python(s)!r} vs {m!r}')
            if list(to_python(x) for x in s) != m:
                return ('iteration', f'{path}: iterates {to_python(list(s))!r}, twin {m!r}')
            if not (s == m):
                return ('eq', f'{path}: pg.List != equal plain list {m!r}')
            for probe in m[:2]:
                if isinstance(probe, (int, str)) and probe not in s:
                    return ('contains', f'{path}: {probe!r} in twin but not `in` symbolic list')
            for sl in (slice(None, None, -1), slice(1, None, 2), slice(-2, None)):
                if to_python(s[sl]) != m[sl]:
                    return ('slice', f'{path}[{sl.start}:{sl.stop}:{sl.step}] = '
                            f'{to_python(s[sl])!r}, twin {m[sl]!r}')
            for i, x in enumerate(m):
                w = self._compare(s.sym_getattr(i), x, f'{path}[{i}]')
                if w:
                    return w
        elif isinstance(m, dict):
            if not isinstance(s, pg.Dict):
                return ('type', f'{path}: expected a dict, found {type(s).__name__}')
            if list(s.keys()) != list(m.keys()):
                return ('keys', f'{path}: keys {list(s.keys())!r}, twin {list(m.keys())!r}')
            if len(s) != len(m):
                return ('len', f'{path}: len {len(s)} != {len(m)}')
            if to_python(s) != m or not (s == m):
                return ('eq', f'{path}: {to_python(s)!r} vs twin {m!r}')
            if [k for k, _ in s.items()] != list(m.keys()):
                return ('items', f'{path}: items() order differs')
            for kk in m:
                if kk not in s:
                    return ('contains', f'{path}: key {kk!r} not `in` symbolic dict')
                w = self._compare(s.sym_getattr(kk), m[kk], f'{path}.{kk}')
                if w:
                    return w
            if pg.to_json(s) != m:
                return ('json', f'{path}: to_json {pg.to_json(s)!r} != twin {m!r}')
        else:
            if isinstance(s, pg.Symbolic) or s != m or type(s) is not type(m):
                return ('leaf', f'{path}: {s!r} vs twin {m!r}')
        return None


ORACLES['C02'] = C02Oracle


# ---------------------------------------------------------------------------
# canaries


def _canary(mod_name, owner_name, fn_name, old, new, count=1):
    def apply():
        import importlib
        from sim.canary import patch_source
        mod = importlib.import_module(mod_name)
        owner = getattr(mod, owner_name) if owner_name else mod
        patch_source(owner, fn_name, old, new, count)
    return {'apply': apply}


_L = 'pyglove.core.symbolic.list'
_D = 'pyglove.core.symbolic.dict'
_B = 'pyglove.core.symbolic.base'
_O = 'pyglove.core.symbolic.object'

CANARIES_BY_PROP = {
    'C01': {
        'relocate_never_copies': _canary(_B, 'Symbolic', '_copy_if_attached',
                                         'value = value.clone()', 'pass'),
        'dict_paths_not_updated': _canary(_D, 'Dict', '_update_children_paths',
                                          'v.sym_setpath(utils.KeyPath(k, new_path))', 'pass'),
        'list_sync_skips_last': _canary(_L, 'List', '_sync_children_paths',
                                        'for idx in range(start, len(self)):',
                                        'for idx in range(start, len(self) - 1):'),
        'list_setitem_no_detach': _canary(_L, 'List', '_set_item_without_permission_check',
                                          'old_value.sym_setparent(None)', 'pass'),
        'dict_detach_before_validate': _canary(
            _D, 'Dict', '_set_item_without_permission_check',
            'old_value = self.get(key, pg_typing.MISSING_VALUE)\n',
            'old_value = self.get(key, pg_typing.MISSING_VALUE)\n'
            '  if isinstance(old_value, base.TopologyAware) and old_value is not value:\n'
            '    old_value.sym_setparent(None)\n'),
        'iadd_bypasses': _canary(_L, 'List', '__iadd__', 'self.extend(other)',
                                 'list.extend(self, other)'),
        'reverse_no_sync': _canary(_L, 'List', 'reverse', 'self._sync_children_paths()', 'pass'),
        'init_repeated_arg_stored_twice': _canary(
            'pyglove.core.symbolic.object', 'Object', '__init__',
            '_copy_repeated_symbolic_args(field_args),', 'field_args,'),
    },
    'C02': {
        'pop_wrong_negative_index': _canary(_L, 'List', 'pop',
                                            'index = (index + len(self)) % len(self)',
                                            'index = abs(index) % len(self)'),
        'setdefault_overwrites': _canary(_D, 'Dict', 'setdefault',
                                         'if value == pg_typing.MISSING_VALUE:', 'if True:'),
        'imul_one_too_many': _canary(_L, 'List', '__imul__', 'for _ in range(n - 1):',
                                     'for _ in range(n):'),
        'update_ignores_kwargs': _canary(_D, 'Dict', 'update', 'updates.update(kwargs)', 'pass'),
        'insert_off_by_one': _canary(_L, 'List', '_set_item_without_permission_check',
                                     'list.insert(self, index, new_value)',
                                     'list.insert(self, index + 1, new_value)'),
        'extended_slice_size_unchecked': _canary(_L, 'List', '__setitem__',
                                                 'if len(indices) != len(new_values):', 'if False:'),
        'add_drops_last': _canary(_L, 'List', '__add__', 'concatenated.extend(other)',
                                  'concatenated.extend(list(other)[:-1])'),
        'getslice_stop_short': _canary(_L, 'List', '__getitem__',
                                       'range(*self._parse_slice(index))',
                                       'list(range(*self._parse_slice(index)))[:3]'),
        'popitem_first': _canary(_D, 'Dict', 'popitem', 'key, value = super().popitem()',
                                 'key = next(iter(dict.keys(self)))\n  value = dict.pop(self, key)'),
    },
}


class _CanaryView(dict):
    """check.py --canary looks names up in engine.CANARIES; expose all."""


CANARIES = {}
for _p, _d in CANARIES_BY_PROP.items():
    for _n, _c in _d.items():
        CANARIES[f'{_p}.{_n}'] = _c


# ---------------------------------------------------------------------------
# C03: typed values always satisfy their schema


def _schema_of(node):
    if isinstance(node, pg.Object):
        return type(node).__schema__
    if isinstance(node, pg.Dict) and node.value_spec is not None:
        return node.value_spec.schema
    return None


def schema_errors(root, partial_ok, limit=2):
    """The schema invariant on every typed node of one tree."""
    errs = []
    for node, parent, key, path in values.walk(root):
        if len(errs) >= limit:
            break
        # explicitly partial: the tree was made partial by the history, or the
        # value itself was created with allow_partial=True
        may_be_partial = id(node) in partial_ok or bool(
            isinstance(node, pg.Symbolic) and node.allow_partial)
        where = f'{type(node).__name__}@{list(path)}'
        schema = _schema_of(node)
        if schema is not None:
            present = list(node.sym_keys())
            for k in present:
                if schema.get_field(k) is None:
                    errs.append((node, 'undeclared-key', f'{where}: key {k!r} is not declared'))
            for kspec, field in schema.items():
                if not isinstance(kspec, pg.typing.ConstStrKey):
                    continue
                name = str(kspec)
                v = node.sym_getattr(name, MISSING) if node.sym_hasattr(name) else MISSING
                if v is MISSING or (not isinstance(v, (int, float, str, bool)) and MISSING == v
                                    and not isinstance(v, pg.Symbolic)):
                    if not may_be_partial:
                        errs.append((node, 'required-missing',
                                     f'{where}: field {name!r} is missing but the value was '
                                     f'never made partial'))
                    continue
                if field.frozen and not pg.eq(v, field.default_value):
                    errs.append((node, 'frozen-changed', f'{where}: frozen field {name!r} = {v!r}, '
                                 f'frozen value {field.default_value!r}'))
                    continue
                e = _apply_error(field.value, v, may_be_partial)
                if e:
                    errs.append((node, 'field-rejected', f'{where}: field {name!r} holds {v!r:.80} '
                                 f'which its spec rejects or changes: {e}'))
            # dynamic keys
            for k in present:
                f = schema.get_field(k)
                if f is not None and not isinstance(f.key, pg.typing.ConstStrKey):
                    v = node.sym_getattr(k)
                    e = _apply_error(f.value, v, may_be_partial)
                    if e:
                        errs.append((node, 'field-rejected', f'{where}: key {k!r} holds {v!r:.80} '
                                     f'which its spec rejects or changes: {e}'))
        if isinstance(node, pg.List) and node.value_spec is not None:
            spec = node.value_spec
            if len(node) < spec.min_size:
                errs.append((node, 'below-min-size', f'{where}: len {len(node)} < min_size {spec.min_size}'))
            if node.max_size is not None and len(node) > node.max_size:
                errs.append((node, 'above-max-size', f'{where}: len {len(node)} > max_size {node.max_size}'))
            for i, v in enumerate(node.sym_values()):
                e = _apply_error(spec.element.value, v, may_be_partial)
                if e:
                    errs.append((node, 'element-rejected', f'{where}[{i}] holds {v!r:.80} which the '
                                 f'element spec rejects or changes: {e}'))
                    break
    return [(c, m, n) for (n, c, m) in errs]


def _primitive_error(vspec, v):
    """Independent judgement for simple specs from their public attributes
    (so that the check does not rest on `apply` alone)."""
    vt = pg.typing
    if v is None:
        return None if vspec.is_noneable else 'None for a non-noneable field'
    if isinstance(vspec, vt.Enum):
        return None if v in vspec.values else f'{v!r} not among {vspec.values}'
    if isinstance(vspec, vt.Bool):
        return None if isinstance(v, bool) else f'{type(v).__name__} for Bool'
    if isinstance(vspec, vt.Int):
        if not isinstance(v, int) or isinstance(v, bool):
            return f'{type(v).__name__} for Int'
        if vspec.min_value is not None and v < vspec.min_value:
            return f'{v} < min_value {vspec.min_value}'
        if vspec.max_value is not None and v > vspec.max_value:
            return f'{v} > max_value {vspec.max_value}'
        return None
    if isinstance(vspec, vt.Str):
        return None if isinstance(v, str) else f'{type(v).__name__} for Str'
    if isinstance(vspec, vt.Object):
        return None if isinstance(v, vspec.cls) else f'{type(v).__name__} for Object({vspec.cls.__name__})'
    return None


def _apply_error(vspec, v, allow_partial):
    if not (isinstance(v, pg.Symbolic) and v.sym_partial) and MISSING != v:
        e = _primitive_error(vspec, v)
        if e:
            return e
    try:
        # (the copy the spec is applied to: an object made partial under a scope
        # can only be copied under that scope again)
        with pg.allow_partial(True if allow_partial else None), pg.as_sealed(False):
            c = v.clone(deep=True) if isinstance(v, pg.Symbolic) else copy.deepcopy(v)
        with pg.allow_partial(None), pg.enable_type_check(True), pg.as_sealed(False):
            r = vspec.apply(c, allow_partial=allow_partial)
    except (TypeError, ValueError, KeyError) as e:
        return f'{type(e).__name__}: {str(e)[:160]}'
    if not pg.eq(r, v):
        return f'apply maps it to {r!r:.80}'
    return None


class C03Oracle(OracleBase):
    def start(self):
        self.partial_ok = set()
        self._keep = []
        for ri, d in enumerate(self.case['roots']):
            if d.get('partial') and ri < len(self.forest.roots):
                self._mark(self.forest.roots[ri])
        self._defaults0 = self._class_defaults()
        # the initial forest must satisfy the invariant, or the generator is wrong
        self._check_all(-1, {'k': 'initial', 'a': {}}, None)

    def _mark(self, root):
        for n, _, _, _ in values.walk(root):
            self.partial_ok.add(id(n))
            self._keep.append(n)

    @staticmethod
    def _class_defaults():
        with pg.allow_partial(None), pg.as_sealed(False), pg.enable_type_check(True):
            return json.dumps([_plain(Node.partial()), _plain(Leaf()),
                               _plain(pg.Dict(value_spec=spec_of('TD1')))], default=repr)

    def finish(self, step):
        # the schema itself is shared state: no history may change the defaults
        # that a fresh instance gets
        now = self._class_defaults()
        if now != self._defaults0:
            self.bad('C03.defaults-changed', 'class-level',
                     f'after the history a fresh instance gets other defaults: {now[:300]} '
                     f'(before: {self._defaults0[:300]})', step)

    def before(self, step, op, pre):
        self._pre_partial = {}
        self._pre_keep = []
        self._pre_paths = {}
        for root in self.forest.roots:
            for n, _, _, path in values.walk(root):
                if isinstance(n, pg.Symbolic):
                    self._pre_partial[id(n)] = n.allow_partial
                    self._pre_paths[id(n)] = tuple(map(repr, path))
                    self._pre_keep.append(n)

    def _check_all(self, step, op, out):
        if not hasattr(self, '_pre_partial'):
            self._pre_partial = {}
        for ri, root in enumerate(self.forest.roots):
            if not isinstance(root, pg.Symbolic):
                continue
            for code, msg, node in schema_errors(root, self.partial_ok)[:1]:
                status = out.status if out is not None else '-'
                if status == 'raised' and code == 'required-missing' and \
                        self._pre_partial.get(id(node)) is True and node.allow_partial is False:
                    # the rejected call went through List/Dict.custom_apply of this
                    # (argument) node, which took over the caller's allow_partial=False
                    # before validation failed: same root cause as the known finding
                    # "argument mutated before validation"
                    self.bad('C03.rejected-argument-mutated', 'partial-flag-dropped',
                             f'after {op["k"]}{json.dumps(op["a"])[:160]} was rejected, the '
                             f'partial {type(node).__name__} that was (part of) its argument is no '
                             f'longer marked allow_partial although it still misses a required '
                             f'field: {msg}', step)
                    return False
                if out is not None and status == 'raised' and ri in self.forest.moved:
                    # the rejected *argument* (a detached untyped container handed over
                    # by reference) was bound to the field's spec before validation failed
                    self.bad('C03.rejected-argument-bound-to-spec', 'detached-container',
                             f'after {op["k"]}{json.dumps(op["a"])[:160]} was rejected, the '
                             f'argument (root {ri}) carries the value spec of the field that '
                             f'rejected it: {msg}', step)
                    return False
                self.bad(f'C03.{code}', f'{op["k"]}|{status}',
                         f'after {op["k"]}{json.dumps(op["a"])[:160]} ({status}): root {ri}: {msg}',
                         step)
                return False
        return True

    def _check_strict_slots(self, step, op, out, scopes):
        """A typed slot of a container that does not accept partial values never
        stores one: checked on what a successful write has just put there.  (An
        object made partial under pg.allow_partial(True) keeps allow_partial=False
        itself; untyped slots may hold it, strict typed ones must refuse it.)"""
        if out.status != 'ok' or out.root_index is None or \
                out.root_index >= len(self.forest.roots):
            return True
        root = self.forest.roots[out.root_index]
        stores = op['k'] in ('l_setitem', 'l_append', 'l_insert', 'd_setitem', 'd_setattr',
                             'o_setattr', 'd_setdefault', 'rebind')
        if stores and scopes.get('allow_partial') is None and 'enable_type_check' not in scopes:
            for w in (out.written or []):
                try:
                    container = pg.KeyPath(list(w[:-1])).query(root) if len(w) > 1 else root
                    stored = pg.KeyPath(list(w)).query(root)
                    key = w[-1]
                    if not isinstance(stored, pg.Symbolic) or not stored.sym_partial:
                        continue
                    if id(stored) in getattr(self, '_pre_paths', {}):
                        continue      # a value that was in the forest already (made partial
                        #               earlier; a deletion only moved it into this slot)
                    if isinstance(container, pg.Object):
                        field = type(container).__schema__.get_field(key)
                        spec = field.value if field is not None else None
                    elif isinstance(container, pg.Dict) and container.value_spec is not None:
                        field = container.value_spec.schema.get_field(key)
                        spec = field.value if field is not None else None
                    elif isinstance(container, pg.List) and container.value_spec is not None:
                        spec = container.value_spec.element.value
                    else:
                        spec = None
                except Exception:  # pylint: disable=broad-except
                    continue
                if spec is None or isinstance(spec, pg.typing.Any) or container.allow_partial:
                    continue
                if isinstance(stored, (pg.Dict, pg.List)) and stored.value_spec is not None \
                        and not stored.allow_partial:
                    # known finding: a typed Dict/List that was emptied under
                    # pg.allow_partial(True) keeps allow_partial=False; custom_apply skips
                    # validation when the flags of value and slot agree, so a copy of it
                    # is accepted by a strict slot
                    self.bad('C03.partial-accepted', 'typed-container-flag-trusted',
                             f'{op["k"]}{json.dumps(op["a"])[:160]} stored a partial typed '
                             f'{type(stored).__name__} (missing {list(stored.sym_missing())[:3]}, '
                             f'own allow_partial=False) in the typed slot {key!r} of a strict '
                             f'{type(container).__name__} at {list(w[:-1])}', step)
                    return False
                self.bad('C03.partial-accepted', f'{op["k"]}|{type(container).__name__}',
                         f'{op["k"]}{json.dumps(op["a"])[:160]} stored a partial '
                         f'{type(stored).__name__} (missing {list(stored.sym_missing())[:3]}) in the '
                         f'typed slot {key!r} of a {type(container).__name__} at {list(w[:-1])} that '
                         f'does not allow partial values (no allow_partial scope active)', step)
                return False
        return True

    def _mark_scoped(self, op, out):
        """Objects that were made partial under pg.allow_partial(True) by the harness
        and that the library stored somewhere (legitimately: untyped slots, partial
        containers) are explicitly partial from now on."""
        if not any(a and a[0] == 'typed' and a[2] == 'scoped' for a in _arg_descs(op)):
            return
        for root in list(self.forest.roots) + list(out.new_roots):
            if not isinstance(root, pg.Symbolic):
                continue
            for n, _, _, _ in values.walk(root):
                if isinstance(n, values.Req) and not n.allow_partial and n.sym_partial:
                    self.partial_ok.add(id(n))
                    self._keep.append(n)

    def after(self, step, op, out, pre, post, pre_nodes, interrupted):
        scopes = dict((n, v) for n, v in op.get('scopes', []))
        if scopes.get('allow_partial') is True and out.root_index is not None:
            # explicitly made partial: everything in that tree, and what the op created
            self._mark(self.forest.roots[out.root_index])
            self.probes['partial_scope_writes'] = self.probes.get('partial_scope_writes', 0) + 1
        for r in out.new_roots:
            if isinstance(r, pg.Symbolic) and out.target is not None and \
                    id(out.target) in self.partial_ok:
                self._mark(r)
        # values moved/copied out of partial trees stay allowed to be partial
        if out.root_index is not None and out.root_index < len(self.forest.roots):
            root = self.forest.roots[out.root_index]
            if op['k'] in ('l_imul', 'l_iadd', 'l_extend', 'd_ior', 'd_update') and \
                    any(id(n) in self.partial_ok for n in (pre_nodes[out.root_index]
                                                          if out.root_index < len(pre_nodes) else ())):
                # in-place operators that copy elements of a tree that was explicitly
                # made partial: the copies are explicitly partial as well
                self._mark(root)
            if any(a and a[0] == 'attached' for a in _arg_descs(op)):
                if any(id(n) in self.partial_ok for ns in pre_nodes for n in ns):
                    self._mark(root)
        if not self._check_strict_slots(step, op, out, scopes):
            return
        self._mark_scoped(op, out)
        if not self._check_all(step, op, out):
            return
        # failure atomicity: a rejected single write leaves everything as it was
        if out.status == 'raised' and not isinstance(out.exc, HandlerFault) \
                and op['k'] not in ('l_sort',):
            if not out.batch or isinstance(out.exc, pg.WritePermissionError):
                for ri in range(min(len(pre), len(post))):
                    if pre[ri][0] != post[ri][0]:
                        self.bad('C03.rejected-write-stored',
                                 f'{op["k"]}|{type(out.exc).__name__}',
                                 f'{op["k"]}{json.dumps(op["a"])[:160]} raised '
                                 f'{type(out.exc).__name__} ({str(out.exc)[:120]}) but root {ri} '
                                 f'changed: {pre[ri][0][:160]} -> {post[ri][0][:160]}', step)
                        return
            else:
                self.probes['rejected_batch'] = self.probes.get('rejected_batch', 0) + 1
        if out.status == 'raised' and isinstance(out.exc, (TypeError, ValueError, KeyError)):
            self.probes['schema_rejections'] = self.probes.get('schema_rejections', 0) + 1


def _arg_descs(op):
    a = op['a']
    out = []
    if 'v' in a:
        out.append(a['v'])
    out += a.get('vs', [])
    out += [v for _, v in a.get('items', [])]
    for _, v in a.get('paths', []):
        out.append(v[1] if v and v[0] == 'insertion' else v)
    return out


ORACLES['C03'] = C03Oracle


CANARIES_BY_PROP['C03'] = {
    'typed_list_min_size_unchecked': _canary(
        _L, 'List', 'custom_apply', 'and len(self) < value_spec.min_size):', 'and False):'),
    'validate_foreign_member_in_place': _canary(
        _D, 'Dict', '_formalized_value', 'if isinstance(value, (dict, list)):', 'if False:'),
    'dict_skips_apply_for_symbolic': _canary(
        _D, 'Dict', '_formalized_value', 'if field and flags.is_type_check_enabled():',
        'if field and flags.is_type_check_enabled() and not isinstance(value, base.Symbolic):'),
    'list_max_size_off_by_one': _canary(
        _L, 'List', '_set_item_without_permission_check',
        'and self.max_size is not None and len(self) >= self.max_size):',
        'and self.max_size is not None and len(self) > self.max_size):'),
    'delitem_min_size_off_by_one': _canary(
        _L, 'List', '__delitem__', 'len(self) <= self._value_spec.min_size',
        'len(self) < self._value_spec.min_size'),
    'undeclared_key_accepted': _canary(
        _D, 'Dict', '_set_item_without_permission_check', 'if not field:', 'if False:'),
    'enum_unchecked': _canary(
        'pyglove.core.typing.value_specs', 'Enum', '_validate',
        'if value not in self._values:', 'if False:'),
    'int_max_unchecked': _canary(
        'pyglove.core.typing.value_specs', 'Number', '_validate',
        'self._max_value is not None and value > self._max_value', 'False'),
    'list_element_apply_skipped': _canary(
        _L, 'List', '_formalized_value', 'if self._value_spec and flags.is_type_check_enabled():',
        'if False:'),
    'store_before_validate': _canary(
        _D, 'Dict', '_set_item_without_permission_check',
        'new_value = self._formalized_value(key, field, value)\n    super().__setitem__(key, new_value)',
        'super().__setitem__(key, value)\n    new_value = self._formalized_value(key, field, value)\n    super().__setitem__(key, new_value)'),
}
for _n, _c in CANARIES_BY_PROP['C03'].items():
    CANARIES[f'C03.{_n}'] = _c


# ---------------------------------------------------------------------------
# C07: clone fidelity and independence

CLONE_OPS = ('clone', 'clone_shallow', 'copy_copy', 'deepcopy')


def _ancestors(n):
    p = n.sym_parent if isinstance(n, pg.Symbolic) else None
    while p is not None:
        yield p
        p = p.sym_parent


_IMMUTABLE = (int, float, str, bool, bytes, type(None), complex, frozenset, range, type)


def _mutable_ids(v, acc=None, depth=0):
    """ids of every mutable object reachable from v (through symbolic containers,
    tuples and plain lists/dicts), with a short description."""
    if acc is None:
        acc = {}
    if depth > 40 or isinstance(v, _IMMUTABLE) or v is MISSING or callable(v) and not isinstance(v, pg.Symbolic):
        return acc
    if isinstance(v, tuple):
        for x in v:
            _mutable_ids(x, acc, depth + 1)
        return acc
    if id(v) in acc:
        return acc
    if isinstance(v, pg.typing.ValueSpec) or isinstance(v, pg.typing.MissingValue):
        return acc
    acc[id(v)] = type(v).__name__
    if isinstance(v, pg.Ref):
        return acc
    if isinstance(v, pg.Symbolic):
        for x in v.sym_values():
            _mutable_ids(x, acc, depth + 1)
    elif isinstance(v, (list, set)):
        for x in v:
            _mutable_ids(x, acc, depth + 1)
    elif isinstance(v, dict):
        for x in v.values():
            _mutable_ids(x, acc, depth + 1)
    return acc


def _pairs(a, b, path=()):
    """Corresponding nodes of two equal trees."""
    yield a, b, path
    if isinstance(a, pg.Symbolic) and isinstance(b, pg.Symbolic) and not isinstance(a, pg.Ref):
        ia, ib = dict(a.sym_items()), dict(b.sym_items())
        for k in ia:
            if k in ib:
                yield from _pairs(ia[k], ib[k], path + (k,))


class C07Oracle(OracleBase):
    def after(self, step, op, out, pre, post, pre_nodes, interrupted):
        k = op['k']
        if not hasattr(self, 'interrupted_roots'):
            self.interrupted_roots = set()
            self.rejected_args = set()
            self._keep_roots = []
        if out.status == 'raised' and self.forest.moved:
            # a detached container handed over by reference and rejected: the known C03
            # finding (List/Dict.custom_apply binds the argument to the field's spec
            # before validating it) leaves it carrying a spec its contents violate
            for ri in self.forest.moved:
                if ri < len(self.forest.roots):
                    self.rejected_args.add(id(self.forest.roots[ri]))
                    self._keep_roots.append(self.forest.roots[ri])
        if interrupted and out.root_index is not None and \
                out.root_index < len(self.forest.roots):
            # a user callback raised in the middle of a multi-step mutation (e.g. the
            # refill of a typed Dict by clear()): what that tree looks like afterwards is
            # the callback's doing; clones of it are not judged
            root = self.forest.roots[out.root_index]
            self.interrupted_roots.add(id(root))
            self._keep_roots.append(root)
        if out.new_roots and isinstance(out.target, pg.Symbolic) and \
                id(out.target.sym_root) in self.interrupted_roots:
            # copies of such a tree (clone, twin_assign, +, ...) inherit the taint
            for nr in out.new_roots:
                self.interrupted_roots.add(id(nr))
                self._keep_roots.append(nr)
            if k in CLONE_OPS:
                self.probes['clone_of_interrupted_tree_unjudged'] = \
                    self.probes.get('clone_of_interrupted_tree_unjudged', 0) + 1
                return
        if out.status == 'ok' and k in CLONE_OPS and out.new_roots:
            t, r = out.target, out.new_roots[-1]
            deep = k in ('clone', 'deepcopy')
            self.probes['clones_checked'] = self.probes.get('clones_checked', 0) + 1
            if t.is_sealed:
                self.probes['clone_of_sealed'] = self.probes.get('clone_of_sealed', 0) + 1
            if t.sym_partial:
                self.probes['clone_of_partial'] = self.probes.get('clone_of_partial', 0) + 1
            if type(r) is not type(t):
                self.bad('C07.class', k, f'{k}: clone is a {type(r).__name__}, original a '
                         f'{type(t).__name__}', step)
                return
            drops_metadata = any(
                isinstance(n, pg.DNA) and set(n.metadata.keys()) != set(n.clone().metadata.keys())
                for n, _, _, _ in values.walk(t))
            if drops_metadata:
                # by design a DNA's non-cloneable metadata is not carried over, so the
                # clone is not symbolically equal; decisions must still be equal
                self.probes['dna_noncloneable_metadata'] = self.probes.get('dna_noncloneable_metadata', 0) + 1
                if isinstance(t, pg.DNA) and not (r == t):
                    self.bad('C07.not-equal', f'{k}|dna', f'{k}: cloned DNA {r!r:.160} != {t!r:.160}', step)
                    return
            elif not pg.eq(r, t) or not pg.eq(t, r):
                self.bad('C07.not-equal', k, f'{k}: clone {r!r:.200} is not pg.eq to the '
                         f'original {t!r:.200}', step)
                return
            for a, b, path in _pairs(t, r):
                if not (isinstance(a, pg.Symbolic) and isinstance(b, pg.Symbolic)):
                    continue
                if type(a) is not type(b):
                    self.bad('C07.class', k, f'{k}: node {list(path)} is {type(b).__name__} in '
                             f'the clone, {type(a).__name__} in the original', step)
                    return
                inside_dna = any(isinstance(p, pg.DNA) for p in _ancestors(a))
                if inside_dna:
                    # (a DNA loaded from compact JSON is built with type checking off,
                    # deliberately: its internal containers carry no value spec)
                    continue
                if isinstance(a, (pg.Dict, pg.List)) and a.value_spec is not b.value_spec \
                        and not pg.eq(a.value_spec, b.value_spec):
                    self.bad('C07.schema-binding', f'{k}|{type(a).__name__}',
                             f'{k}: node {list(path)} is bound to {b.value_spec!r:.120} in the '
                             f'clone, {a.value_spec!r:.120} in the original', step)
                    return
                for flag in ('allow_partial', 'is_sealed', 'accessor_writable'):
                    if path:
                        # flags of nested nodes are derived from the value's own
                        # (seal is recursive, partial propagates on construction)
                        break
                    if getattr(a, flag) != getattr(b, flag):
                        self.bad('C07.flag', f'{k}|{type(a).__name__}|{flag}',
                                 f'{k}: node {list(path)} ({type(a).__name__}) has {flag}='
                                 f'{getattr(b, flag)} in the clone but {getattr(a, flag)} in the '
                                 f'original', step)
                        return
                if a is b:
                    self.bad('C07.shared-node', f'{k}|{type(a).__name__}',
                             f'{k}: the clone shares the {type(a).__name__} at {list(path)} '
                             f'with the original', step)
                    return
            if deep:
                mine, theirs = _mutable_ids(r), _mutable_ids(t)
                shared = [(i, n) for i, n in mine.items() if i in theirs]
                if shared:
                    self.bad('C07.shared-mutable', f'{k}|{shared[0][1]}',
                             f'{k}: the deep clone shares a mutable {shared[0][1]} object with the '
                             f'original (reachable through tuples / plain containers included)',
                             step)
                    return
            errs = values.structure_errors(r)
            if errs:
                self.bad('C07.malformed-clone', f'{k}|{errs[0][0]}',
                         f'{k}: the clone is not a well-formed tree: {errs[0][1]}', step)
                return
            ids_t = {id(n) for n, _, _, _ in values.walk(self.forest.roots[out.root_index])
                     if isinstance(n, pg.Symbolic)}
            for n, _, _, path in values.walk(r):
                if path and path[0] == '<tuple>' and not deep:
                    continue      # shallow copies share non-symbolic leaves (tuples included)
                if isinstance(n, pg.Symbolic) and id(n) in ids_t:
                    self.bad('C07.shared-node', f'{k}|{type(n).__name__}',
                             f'{k}: clone node {list(path)} is an object of the original tree',
                             step)
                    return
            # cloning never modifies the original
            for ri in range(len(pre)):
                if pre[ri] != post[ri]:
                    self.bad('C07.clone-modifies-original', k,
                             f'{k} changed root {ri}: {pre[ri][0][:160]} -> {post[ri][0][:160]}',
                             step)
                    return
        hostile = any((n == 'as_sealed' and v is True) or
                      (n == 'allow_writable_accessors' and v is False) or
                      (n == 'allow_partial' and v is False)      # clone of a partial value
                      for n, v in op.get('scopes', []))
        if k in CLONE_OPS and out.status == 'raised' and hostile:
            # constructing objects inside as_sealed(True) / allow_writable_accessors(False)
            # is refused by the library (see the C08 known finding); C07 has no scope dimension
            self.probes['clone_refused_under_scope'] = self.probes.get('clone_refused_under_scope', 0) + 1
        elif k in CLONE_OPS and out.status == 'raised' and \
                not isinstance(out.exc, HandlerFault) and \
                isinstance(out.target, pg.Symbolic) and \
                id(out.target.sym_root) in getattr(self, 'rejected_args', ()):
            self.bad('C07.clone-raises', 'rejected-argument-bound-to-spec',
                     f'{k} of a {type(out.target).__name__} raised {type(out.exc).__name__}: '
                     f'{str(out.exc)[:160]} - the tree was the argument of a rejected write and '
                     f'still carries the value spec of the field that rejected it', step)
            return
        elif k in CLONE_OPS and out.status == 'raised' and not isinstance(out.exc, HandlerFault):
            self.bad('C07.clone-raises', f'{k}|{type(out.exc).__name__}',
                     f'{k} of a {type(out.target).__name__} raised {type(out.exc).__name__}: '
                     f'{str(out.exc)[:200]}', step)
            return
        # independence: no later mutation of one tree is observable through another
        if not interrupted or True:
            self.check_noninterference(step, op, out, pre, post)
        # and the forest stays well-formed (one node, one place)
        self.check_structure(step, op, out, interrupted, pre_nodes)


ORACLES['C07'] = C07Oracle


# ---------------------------------------------------------------------------
# C08: write protection

_MUTATORS = set(LIST_OPS + DICT_OPS + OBJ_OPS + ['rebind', 'rebind_fn']) - \
    {'l_getslice', 'l_add', 'l_mul', 'l_copy', 'd_copy'}
_ACCESSOR_OPS = {'l_setitem', 'l_setslice', 'l_delitem', 'd_setitem', 'd_setattr', 'd_delitem',
                 'o_setattr'}


def _container_slots(root):
    """path -> direct child slots (shallow content signature) of every container."""
    out = {}
    for node, parent, key, path in values.walk(root):
        if isinstance(node, pg.Symbolic) and not isinstance(node, pg.Ref):
            sig = []
            for k, v in node.sym_items():
                if isinstance(v, pg.Symbolic):
                    sig.append((repr(k), 'node', type(v).__name__))
                else:
                    sig.append((repr(k), 'leaf', json.dumps(_plain(v), default=repr)))
            out[tuple(repr(p) for p in path)] = (node, sig)
    return out


class C08Oracle(OracleBase):
    """Reference executor: the same op on an unsealed, accessor-writable deep
    copy of the target's tree tells which containers the op would change."""

    def before(self, step, op, pre):
        self.plan = None
        self._pre_flag = None
        f = self.forest
        self._flags = {}
        self._flag_nodes = []
        for root in f.roots:
            for n, _, _, path in values.walk(root):
                if isinstance(n, pg.Symbolic) and not isinstance(n, pg.Ref):
                    self._flags[id(n)] = (n.is_sealed, n.accessor_writable, list(path))
                    self._flag_nodes.append(n)
        if op['k'] in ('seal', 'unseal'):
            r, t = f.select(op['t'])
            if t is not None:
                self._pre_flag = t.is_sealed
                # mixed: some descendant's flag already differs from the value's own
                self._pre_mixed = any(
                    isinstance(n, pg.Symbolic) and n.is_sealed != t.is_sealed
                    for n, _, _, _ in values.walk(t))
            return
        if op['k'] not in _MUTATORS:
            return
        r, t = f.select(op['t'])
        if t is None:
            return
        root = f.roots[r]
        scope_sealed, scope_acc = None, None
        for name, val in op.get('scopes', []):
            if name == 'as_sealed':
                scope_sealed = val
            elif name == 'allow_writable_accessors':
                scope_acc = val
        # effective protection of every container of the tree (scope over flag)
        prot = {}
        for node, parent, key, path in values.walk(root):
            if isinstance(node, pg.Symbolic) and not isinstance(node, pg.Ref):
                sealed = node.is_sealed if scope_sealed is None else scope_sealed
                prot[tuple(repr(p) for p in path)] = sealed
        mixed = False
        for node, parent, key, path in values.walk(root):
            if isinstance(node, pg.Symbolic) and not node.is_sealed:
                p = node.sym_parent
                while p is not None:
                    if p.is_sealed:
                        mixed = True      # an unsealed node below a sealed ancestor
                        break
                    p = p.sym_parent
        acc = t.accessor_writable if scope_acc is None else scope_acc
        # reference copy: same contents, nothing protected
        try:
            with pg.as_sealed(False), pg.allow_writable_accessors(True), pg.notify_on_change(False):
                ref_root = root.clone(deep=True)
                ref_root.seal(False)
                for n, _, _, _ in values.walk(ref_root):
                    if isinstance(n, pg.Symbolic):
                        n.set_accessor_writable(True)
        except Exception:  # pylint: disable=broad-except
            return
        ref_forest = Forest(self.case)
        ref_forest.roots = list(f.roots)
        ref_forest.roots[r] = ref_root
        ref_forest.raise_at = None
        ref_op = dict(op, scopes=[[n, v] for n, v in op.get('scopes', [])
                                  if n not in ('as_sealed', 'allow_writable_accessors')])
        before_slots = _container_slots(ref_root)
        ref_out = execute(ref_forest, ref_op)
        if ref_out.status == 'skipped':
            return
        after_slots = _container_slots(ref_root) if ref_out.status == 'ok' else before_slots
        # a container "would change" when the same node object has other direct
        # slots afterwards (a container that is merely removed from its parent
        # does not change; its parent does)
        after_by_id = {id(n): sig for p, (n, sig) in after_slots.items()}
        changed = [p for p, (n, sig) in before_slots.items()
                   if id(n) in after_by_id and after_by_id[id(n)] != sig]
        self._pre_sealed = t.is_sealed
        self.plan = {'r': r, 'prot': prot, 'changed': changed, 'ref_status': ref_out.status,
                     'acc': acc, 'tpath': tuple(repr(p) for p in t.sym_path.keys),
                     'scope_sealed': scope_sealed, 'mixed': mixed}

    def after(self, step, op, out, pre, post, pre_nodes, interrupted):
        k = op['k']
        # protection flags are changed by seal()/set_accessor_writable() only
        if k not in ('seal', 'unseal', 'accessor_on', 'accessor_off') and not interrupted:
            for n in self._flag_nodes:
                was = self._flags[id(n)]
                now = (n.is_sealed, n.accessor_writable)
                attached = n.sym_parent is not None or any(n is r for r in self.forest.roots)
                if attached and now != was[:2]:
                    self.bad('C08.flag-changed', f'{k}|{type(n).__name__}',
                             f'{k}{json.dumps(op["a"])[:120]} ({out.status}) changed the protection '
                             f'flags of the {type(n).__name__} at {was[2]} from '
                             f'(sealed={was[0]}, accessor_writable={was[1]}) to '
                             f'(sealed={now[0]}, accessor_writable={now[1]})', step)
                    return
        # seal / unseal reach every descendant
        if k in ('seal', 'unseal') and out.status == 'ok' and \
                getattr(self, '_pre_flag', None) is not None and self._pre_flag != (k == 'seal'):
            # (a call that does not change the value's own flag is a no-op)
            want = k == 'seal'
            for n, _, _, path in values.walk(out.target):
                if isinstance(n, pg.Symbolic) and not isinstance(n, pg.Ref) and n.is_sealed != want:
                    self.bad('C08.seal-not-deep',
                             'mixed-seal' if getattr(self, '_pre_mixed', False)
                             else f'{k}|{type(n).__name__}',
                             f'{k} on {type(out.target).__name__}: descendant {list(path)} '
                             f'({type(n).__name__}) reports is_sealed={n.is_sealed}', step)
                    return
        plan = getattr(self, 'plan', None)
        if plan is None or out.status == 'skipped':
            return
        r = out.root_index            # (roots handed over as arguments may have left the list)
        if r is None or r >= len(pre) or r >= len(post):
            return
        changed_prot = [p for p in plan['changed'] if plan['prot'].get(p)]
        tprot = plan['prot'].get(plan['tpath'])
        flagsig = 'mixed-seal' if plan['mixed'] else f'{k}|scope={plan["scope_sealed"]}'
        if plan['ref_status'] == 'ok' and changed_prot:
            self.probes['protected_would_change'] = self.probes.get('protected_would_change', 0) + 1
            # the op would change a sealed container: it must be refused
            if not (out.status == 'raised' and isinstance(out.exc, pg.WritePermissionError)):
                self.bad('C08.not-refused', flagsig,
                         f'{k}{json.dumps(op["a"])[:160]} scopes={op.get("scopes")} would change '
                         f'sealed container(s) at {changed_prot[:3]} but '
                         f'{"returned normally" if out.status == "ok" else "raised " + type(out.exc).__name__}',
                         step)
                return
        if changed_prot or tprot:
            # whatever happened, nothing protected may have changed
            if pre[r][0] != post[r][0] and (changed_prot or all(plan['prot'].values())):
                self.bad('C08.protected-changed', flagsig,
                         f'{k}{json.dumps(op["a"])[:160]} scopes={op.get("scopes")} on a '
                         f'protected tree changed it: {pre[r][0][:160]} -> {post[r][0][:160]}', step)
                return
        # accessor-protected: [] = / attribute set / del are refused, rebind is not
        if plan['acc'] is False and k in _ACCESSOR_OPS and plan['ref_status'] == 'ok' \
                and plan['changed'] \
                and not tprot and isinstance(out.target, (pg.Dict, pg.List, pg.Object)):
            self.probes['accessor_refusals_expected'] = \
                self.probes.get('accessor_refusals_expected', 0) + 1
            if not (out.status == 'raised' and isinstance(out.exc, pg.WritePermissionError)):
                self.bad('C08.accessor-not-refused', k,
                         f'{k}{json.dumps(op["a"])[:160]} scopes={op.get("scopes")} on a value '
                         f'with accessor writes disabled was not refused ({out.status})', step)
                return
            if pre[r][0] != post[r][0]:
                self.bad('C08.accessor-protected-changed', k,
                         f'{k} was refused but the tree changed', step)
                return
        if plan['acc'] is False and k == 'rebind' and not any(plan['prot'].values()) \
                and plan['ref_status'] == 'ok' and out.status == 'raised' \
                and isinstance(out.exc, pg.WritePermissionError):
            by_scope = any(n == 'allow_writable_accessors' and v is False
                           for n, v in op.get('scopes', []))
            self.bad('C08.rebind-refused', 'scope' if by_scope else 'flag',
                     f'rebind on an unsealed value with accessor writes disabled '
                     f'({"by scope" if by_scope else "by its own flag"}) raised {out.exc}', step)
            return
        # unprotected and the reference accepted: the real one must accept too
        if not any(plan['prot'].values()) and plan['acc'] is not False \
                and plan['ref_status'] == 'ok' and out.status == 'raised' \
                and isinstance(out.exc, pg.WritePermissionError):
            self.bad('C08.spurious-refusal', flagsig,
                     f'{k}{json.dumps(op["a"])[:160]} scopes={op.get("scopes")} was refused '
                     f'({out.exc}) although nothing is protected', step)


ORACLES['C08'] = C08Oracle


CANARIES_BY_PROP['C07'] = {
    'object_clone_drops_allow_partial': _canary(
        _O, 'Object', '_sym_clone', 'allow_partial=self._allow_partial', 'allow_partial=False'),
    'list_clone_drops_sealed': _canary(
        _L, 'List', '_sym_clone', 'sealed=self._sealed,', ''),
    'object_clone_drops_accessor_flag': _canary(
        _O, 'Object', '_sym_clone', 'return cloned.set_accessor_writable(self._accessor_writable)',
        'return cloned'),
    'relocate_never_copies': _canary(_B, 'Symbolic', '_copy_if_attached',
                                     'value = value.clone()', 'pass'),
    'dict_clone_drops_value_spec': _canary(
        _D, 'Dict', '_sym_clone', 'value_spec=self._value_spec,', 'value_spec=None,'),
}
CANARIES_BY_PROP['C08'] = {
    'treats_as_sealed_ignores_scope': _canary(
        _B, None, 'treats_as_sealed',
        'return value.sym_sealed if sealed_in_scope is None else sealed_in_scope',
        'return value.sym_sealed'),
    'dict_seal_not_recursive': _canary(_D, 'Dict', 'seal', 'v.seal(sealed)', 'pass'),
    'list_insert_no_sealed_check': _canary(
        _L, 'List', 'insert', 'if base.treats_as_sealed(self):', 'if False:'),
    'iadd_bypasses_seal': _canary(_L, 'List', '__iadd__', 'self.extend(other)',
                                  'list.extend(self, list(other))'),
    'accessor_scope_ignored': _canary(
        _B, None, 'writtable_via_accessors', 'if writable_in_scope is None:', 'if True:'),
    'dict_delitem_no_accessor_check': _canary(
        _D, 'Dict', '__delitem__', 'if not base.writtable_via_accessors(self):', 'if False:'),
    'set_item_of_tree_no_sealed_check': _canary(
        _B, 'Symbolic', '_set_item_of_current_tree', 'if treats_as_sealed(parent_node):', 'if False:'),
    'list_sort_no_sealed_check': _canary(
        _L, 'List', 'sort', 'if base.treats_as_sealed(self):', 'if False:'),
}
for _p in ('C07', 'C08'):
    for _n, _c in CANARIES_BY_PROP[_p].items():
        CANARIES[f'{_p}.{_n}'] = _c


# ---------------------------------------------------------------------------
# C09: change notification contract and freshness of derived state


def _subscribes(node):
    if isinstance(node, (Rec, RecQ)):
        return True
    if isinstance(node, (pg.Dict, pg.List)):
        return node._onchange_callback is not None  # pylint: disable=protected-access
    return False


def _at(plain_root, keys):
    """Value at `keys` inside a _plain() snapshot structure, or a marker."""
    cur = plain_root
    for k in keys:
        if not isinstance(cur, list) or not cur:
            return ['ABSENT']
        tag = cur[0]
        if tag in ('L', 'l', 'T'):
            if not isinstance(k, int) or not -len(cur[1]) <= k < len(cur[1]):
                return ['ABSENT']
            cur = cur[1][k]
        elif tag in ('D', 'd'):
            hit = [v for kk, v in cur[1] if kk == repr(k)]
            if not hit:
                return ['ABSENT']
            cur = hit[0]
        elif tag == 'O':
            hit = [v for kk, v in cur[2] if kk == k]
            if not hit:
                return ['ABSENT']
            cur = hit[0]
        else:
            return ['ABSENT']
    return cur


def _derived(node):
    with pg.allow_partial(None):
        return {
            'is_partial': bool(node.is_partial),
            'missing': json.dumps(_plain(dict(node.sym_missing(flatten=True))), default=repr, sort_keys=True),
            'nondefault': json.dumps(_plain(dict(node.sym_nondefault(flatten=True))), default=repr,
                                     sort_keys=True),
            'puresymbolic': bool(node.sym_puresymbolic),
            'deterministic': bool(node.is_deterministic),
        }


class C09Oracle(OracleBase):
    def start(self):
        self.tainted = set()

    def before(self, step, op, pre):
        f = self.forest
        self.pre_plain = [_plain(r) for r in f.roots]
        self.pre_nodes_by_id = {}
        for ri, root in enumerate(f.roots):
            for n, parent, key, path in values.walk(root):
                if isinstance(n, pg.Symbolic):
                    self.pre_nodes_by_id[id(n)] = (ri, list(path), n)

    def after(self, step, op, out, pre, post, pre_nodes, interrupted):
        f = self.forest
        k = op['k']
        events = list(f.events)
        if out.root_index is not None and out.root_index < len(f.roots):
            silent = any(n == 'notify_on_change' and v is False for n, v in op.get('scopes', [])) \
                or (k == 'rebind' and out.skip_notification is True) \
                or (k == 'rebind' and not out.notify_parents)
            if silent or interrupted or out.status == 'raised':
                # (a rejected batch may have applied its first elements without
                # any notification; the property speaks of calls that return)
                self.tainted.add(id(f.roots[out.root_index]))
        if interrupted or out.status != 'ok' or out.root_index is None:
            return
        ri = out.root_index
        root = f.roots[ri]
        scope_notify = True
        for name, val in op.get('scopes', []):
            if name == 'notify_on_change':
                scope_notify = val
        enabled = scope_notify
        if k == 'rebind' and out.skip_notification is not None:
            enabled = not out.skip_notification
        post_plain = _plain(root)
        pre_plain = self.pre_plain[ri] if ri < len(self.pre_plain) else None
        if not enabled:
            # caches cannot follow a silent mutation: derived state of this
            # tree is no longer judged in this run
            self.tainted.add(id(root))
            if events:
                self.bad('C09.event-while-disabled', k,
                         f'{k}{json.dumps(op["a"])[:160]} scopes={op.get("scopes")}: '
                         f'{len(events)} event(s) delivered although notifications are '
                         f'disabled / skipped', step)
            return
        self.probes['notified_ops'] = self.probes.get('notified_ops', 0) + 1
        # ---- who must hear about it
        post_by_id = {}
        for n, parent, key, path in values.walk(root):
            if isinstance(n, pg.Symbolic):
                post_by_id[id(n)] = (list(path), n)
        written = out.written
        if written is not None and pre_plain is not None:
            changed = [w for w in written
                       if _at(pre_plain, w) != _at(post_plain, w)]
            stop_at = out.target_path if (k == 'rebind' and not out.notify_parents) else None
            expected = {}       # id(receiver) -> (node, path, set of rel key strings that changed,
            #                                       set of rel key strings that were written)
            for w in written:
                for pth, n in post_by_id.values():
                    if not _subscribes(n):
                        continue
                    if len(pth) <= len(w) - 1 and w[:len(pth)] == pth:
                        if stop_at is not None and len(pth) < len(stop_at):
                            continue
                        e = expected.setdefault(id(n), (n, pth, set(), set()))
                        rel = str(pg.KeyPath(w[len(pth):]))
                        e[3].add(rel)
                        if w in changed:
                            e[2].add(rel)
            shifting = out.complex_batch or k in ('l_insert', 'l_delitem', 'l_pop', 'l_extend') or any(
                a and a[0] in ('missing', 'insertion') for a in _arg_descs(op)) or \
                any(v and v[0] == 'insertion' for _, v in op['a'].get('paths', []))
            got = {}
            batch_shift = k == 'rebind' and shifting
            for ei, (rid, upd) in enumerate(events):
                if batch_shift and ei in f.unattributed:
                    continue
                got.setdefault(rid, []).append(upd)
            for rid, ups in got.items():
                if rid not in expected and batch_shift:
                    continue      # receivers move while the batch is applied: not judged
                if rid not in expected:
                    who = self.pre_nodes_by_id.get(rid) or (None, post_by_id.get(rid, ['?'])[0], None)
                    self.bad('C09.unexpected-receiver', k,
                             f'{k}{json.dumps(op["a"])[:160]}: an object at {who[1]} that is not a '
                             f'subscribing ancestor of any written location {written} received '
                             f'{ups[0].keys()}', step)
                    return
                if len(ups) > 1:
                    self.bad('C09.more-than-once', k,
                             f'{k}{json.dumps(op["a"])[:160]}: receiver at {expected[rid][1]} got '
                             f'{len(ups)} events for one call: {[sorted(u) for u in ups]}', step)
                    return
            for rid, (n, pth, must, may) in expected.items():
                if must and rid not in got and not batch_shift:
                    self.bad('C09.not-notified', f'{k}|{type(n).__name__}',
                             f'{k}{json.dumps(op["a"])[:160]} changed {sorted(must)} below the '
                             f'{type(n).__name__} at {pth} but it received no event', step)
                    return
                if rid in got and not shifting:
                    keys = set(got[rid][0])
                    if not must <= keys or not keys <= may:
                        self.bad('C09.payload-keys', f'{k}|{type(n).__name__}',
                                 f'{k}{json.dumps(op["a"])[:160]}: receiver at {pth} got keys '
                                 f'{sorted(keys)}; changed locations {sorted(must)}, written '
                                 f'{sorted(may)}', step)
                        return
                    for rel, (old, new) in got[rid][0].items():
                        loc = pth + list(pg.KeyPath.parse(rel).keys) if rel else pth
                        want_old, want_new = _at(pre_plain, loc), _at(post_plain, loc)
                        if want_old == ['ABSENT']:
                            want_old = ['MISSING']
                        if want_new == ['ABSENT']:
                            want_new = ['MISSING']
                        if _plain(old) != want_old or _plain(new) != want_new:
                            self.bad('C09.payload-values', f'{k}|{type(n).__name__}',
                                     f'{k}{json.dumps(op["a"])[:120]}: event at {pth} key {rel!r} '
                                     f'carries old={_plain(old)!r:.80} new={_plain(new)!r:.80} but the '
                                     f'location held {want_old!r:.80} and now holds {want_new!r:.80}',
                                     step)
                            return
            # an overlapping batch (receivers move while it is applied) is not judged in
            # detail, but the root never moves: when its contents changed it hears about it
            if batch_shift and out.status == 'ok' and _subscribes(root) and \
                    pre_plain != post_plain and id(root) not in got and \
                    (out.notify_parents or out.target is root):
                self.bad('C09.not-notified', f'{k}|root-of-overlapping-batch',
                         f'{k}{json.dumps(op["a"])[:160]} changed the tree below the subscribing '
                         f'{type(root).__name__} root but the root received no event '
                         f'(events went to {len(events)} other receiver(s))', step)
                return
            # children before parents
            order = [rid for ei, (rid, _) in enumerate(events)
                     if rid in expected and ei not in f.unattributed]
            if batch_shift:
                order = []      # receivers move while an overlapping batch is applied
            for i in range(len(order)):
                for j in range(i + 1, len(order)):
                    pi, pj = expected[order[i]][1], expected[order[j]][1]
                    if len(pj) > len(pi) and pj[:len(pi)] == pi:
                        self.bad('C09.order', k,
                                 f'{k}: the receiver at {pi} was notified before its descendant '
                                 f'at {pj}', step)
                        return
        # ---- derived state is fresh (ordinary mutation, notifications on)
        if id(root) not in self.tainted:
            self._check_fresh(step, op, root, ri)

    def _check_fresh(self, step, op, root, ri):
        try:
            # a deep clone is built through the constructors (fresh caches) and,
            # unlike a JSON round trip, keeps the value specs of typed containers
            # that sit inside untyped ones
            with pg.allow_partial(None), pg.as_sealed(False), pg.notify_on_change(False):
                fresh = root.clone(deep=True)
        except Exception:  # pylint: disable=broad-except
            self.probes['fresh_rebuild_failed'] = self.probes.get('fresh_rebuild_failed', 0) + 1
            return
        if not isinstance(fresh, pg.Symbolic):
            return
        fresh_by_path = {tuple(repr(k) for k in path): n for n, _, _, path in values.walk(fresh)
                         if isinstance(n, pg.Symbolic)}
        for n, parent, key, path in values.walk(root):
            if not isinstance(n, pg.Symbolic) or isinstance(n, pg.Ref):
                continue
            m = fresh_by_path.get(tuple(repr(k) for k in path))
            if m is None or type(m) is not type(n):
                continue
            try:
                a, b = _derived(n), _derived(m)
            except Exception as e:  # pylint: disable=broad-except
                self.bad('C09.getter-raises', f'{op["k"]}|{type(e).__name__}',
                         f'after {op["k"]}: a derived getter of the {type(n).__name__} at '
                         f'{list(path)} raised {type(e).__name__}: {e}', step)
                return
            for key2 in a:
                if a[key2] != b[key2]:
                    self.bad('C09.stale', f'{op["k"]}|{key2}',
                             f'after {op["k"]}{json.dumps(op["a"])[:120]}: {type(n).__name__} at '
                             f'{list(path)} reports {key2}={a[key2]!r:.400} but a fresh copy of '
                             f'the same contents reports {b[key2]!r:.400}', step)
                    return


ORACLES['C09'] = C09Oracle


CANARIES_BY_PROP['C09'] = {
    'notify_top_down': _canary(
        _B, 'Symbolic', '_notify_field_updates', 'reverse=True):', 'reverse=False):'),
    'cache_reset_skipped': _canary(
        _B, 'Symbolic', '_notify_field_updates',
        "target._set_raw_attr('_sym_nondefault_values', None)", 'pass'),
    'missing_cache_reset_skipped': _canary(
        _B, 'Symbolic', '_notify_field_updates',
        "target._set_raw_attr('_sym_missing_values', None)", 'pass'),
    'relative_path_against_root': _canary(
        _B, 'Symbolic', '_notify_field_updates',
        'relative_path = update.path - target.sym_path', 'relative_path = update.path'),
    'update_skips_notification': _canary(
        _D, 'Dict', 'update', 'raise_on_no_change=False)', 'raise_on_no_change=False, skip_notification=True)'),
    'notify_ignores_disabled_scope': _canary(
        _D, 'Dict', '__setitem__', 'if flags.is_change_notification_enabled() and update:',
        'if update:'),
    'parents_not_notified': _canary(
        _B, 'Symbolic', '_notify_field_updates', 'target = target.sym_parent', 'target = None'),
    'list_append_double_notify': _canary(
        _L, 'List', 'append', 'self._notify_field_updates([update])',
        'self._notify_field_updates([update])\n    self._notify_field_updates([update])'),
    'old_value_wrong': _canary(
        _D, 'Dict', '_set_item_without_permission_check',
        'self.sym_path + key, target, field, old_value, new_value)',
        'self.sym_path + key, target, field, new_value, new_value)'),
}
for _n, _c in CANARIES_BY_PROP['C09'].items():
    CANARIES[f'C09.{_n}'] = _c
