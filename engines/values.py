"""Value descriptors (JSON) and builders shared by the storage (C05) and the
symbolic-tree (C01..C09) engines, plus the catalogue of harness-defined
pg.Object classes with typed fields."""
import pyglove as pg

EVENT_LOG = []      # legacy sink
EVENT_SINK = [None]  # callable(receiver, field_updates) installed by the running forest


@pg.members([
    ('x', pg.typing.Int(min_value=0, max_value=9, default=0), 'small int'),
    ('tag', pg.typing.Enum('u', ['u', 'v', 'w']), 'enum'),
    ('note', pg.typing.Str().noneable(), 'optional text'),
])
class Leaf(pg.Object):
    allow_symbolic_assignment = True


@pg.members([
    ('r', pg.typing.Int(), 'required'),
    ('s', pg.typing.Str(default='x'), 'optional'),
])
class Req(pg.Object):
    """An object with a required field: it can be partial."""
    allow_symbolic_assignment = True


@pg.members([
    ('leaf', pg.typing.Object(Leaf).noneable(), 'child object'),
    ('nums', pg.typing.List(pg.typing.Int(min_value=0), max_size=4, default=[]), 'bounded list'),
    ('opts', pg.typing.Dict([
        ('k', pg.typing.Int(default=1)),
        ('m', pg.typing.Str().noneable()),
    ]), 'fixed-key dict'),
    ('dyn', pg.typing.Dict([(pg.typing.StrKey(), pg.typing.Int())]), 'dynamic keys'),
    ('u', pg.typing.Union([pg.typing.Int(), pg.typing.Str()], default=0), 'union'),
    ('t', pg.typing.Tuple([pg.typing.Int(), pg.typing.Str()]).noneable(), 'tuple'),
    ('fz', pg.typing.Int(default=7).freeze(), 'frozen'),
    ('fzn', pg.typing.Str().noneable().freeze('fixed'), 'frozen and noneable'),
    ('kids', pg.typing.List(pg.typing.Object(Leaf), default=[]), 'object list'),
    ('req', pg.typing.Int(), 'required'),
    ('pd', pg.typing.Dict([
        ('r', pg.typing.Int()),
        ('s', pg.typing.Str(default='x')),
    ]).noneable(), 'dict with a required key'),
    ('pl', pg.typing.List(pg.typing.Dict([('r', pg.typing.Int())]), max_size=3).noneable(),
     'list of dicts with a required key'),
    ('mn', pg.typing.List(pg.typing.Int(), min_size=1, max_size=3).noneable(), 'list with a min size'),
    ('ro', pg.typing.Object(Req).noneable(), 'object with a required field'),
    ('rl', pg.typing.List(pg.typing.Object(Req), default=[]), 'list of such objects'),
])
class Node(pg.Object):
    allow_symbolic_assignment = True


@pg.members([
    ('v', pg.typing.Any(default=None), 'anything'),
    ('w', pg.typing.List(pg.typing.Any(), default=[]), 'untyped list'),
])
class Rec(pg.Object):
    """Records every change notification it receives."""
    allow_symbolic_assignment = True

    def _on_change(self, field_updates):
        super()._on_change(field_updates)
        sink = EVENT_SINK[0]
        if sink is not None:
            sink(self, field_updates)


@pg.members([
    ('v', pg.typing.Any(default=None), 'anything'),
    ('w', pg.typing.List(pg.typing.Any(), default=[]), 'untyped list'),
])
class Quiet(pg.Object):
    """A concrete class without a change handler."""
    allow_symbolic_assignment = True


class RecQ(Quiet):
    """Adds the change handler in a subclass of a concrete class that has none."""

    def _on_change(self, field_updates):
        super()._on_change(field_updates)
        sink = EVENT_SINK[0]
        if sink is not None:
            sink(self, field_updates)


@pg.members([
    ('a', pg.typing.Int(default=0)),
    ('child', pg.typing.Object(Rec).noneable()),
    ('box', pg.typing.Dict().noneable()),
])
class Rec2(Rec):
    pass


@pg.functor()
def fn_sum(a, b=2, c=3):
    return (a or 0) + b + c


_DNA_SPEC = [None]


def dna_spec():
    """A small fixed search space for DNA roots (nested conditional sub-space)."""
    if _DNA_SPEC[0] is None:
        c = pg.geno.constant
        _DNA_SPEC[0] = pg.geno.space([
            pg.geno.manyof(2, [c(), pg.geno.space([pg.geno.oneof([c(), c()])]), c()], name='m'),
            pg.geno.oneof([c(), c(), c()]),
            pg.geno.floatv(0.0, 1.0),
        ])
    return _DNA_SPEC[0]


CLASSES = {'Leaf': Leaf, 'Node': Node, 'Rec': Rec, 'Rec2': Rec2}

STRINGS = ['', 'a', 'hello', 'x.y', 'k[0]', 'üñí', '中文', 'tab\there', 'nl\nline',
           'quote"s', "ap'os", 'back\\slash', '\x00nul', '\x1f', ' sp ', '{"j": 1}',
           'MISSING_VALUE', '_type', 'a' * 70]
KEYS = ['a', 'b', 'c', 'x', 'key with space', 'ü', 'k1', 'n_1', '0']
FLOATS = [0.0, -0.0, 1.5, -2.25, 1e-9, 1e20, 3.141592653589793, float('inf'), float('-inf')]


def gen_leaf(rng):
    return ['leaf', {'x': rng.randint(0, 9), 'tag': rng.choice(['u', 'v', 'w']),
                     'note': rng.choice([None, None] + STRINGS[:8])}]


def gen_node(rng, depth):
    d = {'req': ['int', rng.randint(-5, 5)]}
    if rng.random() < 0.6:
        d['leaf'] = gen_leaf(rng) if rng.random() < 0.8 else ['none']
    if rng.random() < 0.6:
        d['nums'] = ['list', [['int', rng.randint(0, 50)] for _ in range(rng.randint(0, 4))]]
    if rng.random() < 0.5:
        d['opts'] = ['dict', [['k', ['int', rng.randint(-3, 3)]]] +
                     ([['m', ['str', rng.choice(STRINGS)]]] if rng.random() < 0.5 else [])]
    if rng.random() < 0.5:
        d['dyn'] = ['dict', [[rng.choice(KEYS[:6]), ['int', rng.randint(0, 9)]]
                             for _ in range(rng.randint(0, 3))]]
    if rng.random() < 0.5:
        d['u'] = ['int', rng.randint(0, 9)] if rng.random() < 0.5 else ['str', rng.choice(STRINGS)]
    if rng.random() < 0.4:
        d['t'] = ['tuple', [['int', rng.randint(0, 9)], ['str', rng.choice(STRINGS)]]]
    if rng.random() < 0.5:
        d['kids'] = ['list', [gen_leaf(rng) for _ in range(rng.randint(0, 3))]]
    return ['node', d]


def gen_value(rng, depth=0, max_depth=3, objects=True, special_floats=True, int_keys=True,
              tuples=True, tuple_prims=False, partial_objects=False):
    """`partial_objects`: some Node objects lack their required field (built with
    Node.partial): serializable values that only load with allow_partial=True."""
    r = rng.random()
    if depth >= max_depth or r < 0.35:
        k = rng.random()
        if k < 0.3:
            return ['int', rng.choice([0, 1, -1, 7, 2 ** 31, -2 ** 40, rng.randint(-100, 100)])]
        if k < 0.45:
            f = rng.choice(FLOATS if special_floats else FLOATS[:7])
            return ['float', repr(f)]
        if k < 0.75:
            return ['str', rng.choice(STRINGS)]
        if k < 0.85:
            return ['bool', rng.random() < 0.5]
        return ['none']
    if r < 0.55:
        return ['list', [gen_value(rng, depth + 1, max_depth, objects, special_floats,
                                   int_keys, tuples, tuple_prims, partial_objects)
                         for _ in range(rng.randint(0, 4))]]
    if r < 0.78:
        items, seen = [], set()
        for _ in range(rng.randint(0, 4)):
            k = rng.choice(KEYS) if not int_keys or rng.random() < 0.8 else rng.randint(-2, 5)
            if k in seen:
                continue
            seen.add(k)
            items.append([k, gen_value(rng, depth + 1, max_depth, objects, special_floats,
                                       int_keys, tuples, tuple_prims, partial_objects)])
        return ['dict', items]
    if r < 0.84 and tuples:
        if tuple_prims:
            return ['tuple', [gen_value(rng, max_depth, max_depth, False, special_floats)
                              for _ in range(rng.randint(1, 3))]]
        return ['tuple', [gen_value(rng, depth + 1, max_depth, objects, special_floats,
                                    int_keys, tuples, False, partial_objects)
                          for _ in range(rng.randint(1, 3))]]
    if not objects:
        return ['str', rng.choice(STRINGS)]
    if r < 0.92:
        return gen_leaf(rng)
    n = gen_node(rng, depth)
    if partial_objects and rng.random() < 0.4:
        d = dict(n[1])
        d.pop('req', None)
        return ['pnode', d]
    return n


def build(desc, symbolic=True):
    """Descriptor -> real value (pg.Dict/pg.List containers when symbolic)."""
    k = desc[0]
    if k == 'int':
        return desc[1]
    if k == 'float':
        return float(desc[1])
    if k == 'str':
        return desc[1]
    if k == 'bool':
        return desc[1]
    if k == 'none':
        return None
    if k == 'list':
        xs = [build(x, symbolic) for x in desc[1]]
        return pg.List(xs) if symbolic else xs
    if k == 'dict':
        d = {kk: build(v, symbolic) for kk, v in desc[1]}
        return pg.Dict(d) if symbolic else d
    if k == 'tuple':
        return tuple(build(x, symbolic) for x in desc[1])
    if k == 'ref':
        # an explicit reference; its target (here a plain, non-symbolic container) is
        # deliberately shared by copies
        return pg.Ref(build(desc[1], symbolic=False))
    if k == 'oneof':
        return pg.oneof(list(desc[1]))
    if k == 'functor':
        return fn_sum(**desc[1])
    if k == 'dna':
        import random as _r
        d = pg.random_dna(dna_spec(), _r.Random(desc[1]))
        for kk, vv, cl in desc[2]:
            d.set_metadata(kk, vv, cloneable=cl)
        for kk, vv, cl in desc[3]:
            d.set_userdata(kk, vv, cloneable=cl)
        return d
    if k == 'typed':
        # a typed pg.Dict / pg.List value with its own (compatible) value spec,
        # complete or partial (created with allow_partial=True, a required key missing)
        which, partial = desc[1], desc[2]
        if which == 'mn':
            # a list that carries a (compatible) spec of its own without a min size;
            # `partial` doubles as its length here
            n = {False: 0, True: 1, 'scoped': 2}[partial]
            return pg.List(list(range(n)), value_spec=pg.typing.List(pg.typing.Int(), max_size=3))
        if which in ('ro', 'rl'):
            # partial == 'scoped': made partial inside pg.allow_partial(True); the
            # object's own allow_partial flag stays False
            if partial == 'scoped':
                with pg.allow_partial(True):
                    o = Req(s='q')
            elif partial:
                o = Req.partial(s='p')
            else:
                o = Req(r=3)
            return o if which == 'ro' else [o]
        if which == 'pd':
            spec = pg.typing.Dict([('r', pg.typing.Int()), ('s', pg.typing.Str(default='x'))])
            return pg.Dict({} if partial else {'r': 1}, value_spec=spec, allow_partial=partial)
        spec = pg.typing.List(pg.typing.Dict([('r', pg.typing.Int())]), max_size=3)
        return pg.List([{}] if partial else [{'r': 2}], value_spec=spec, allow_partial=partial)
    if k == 'leaf':
        return Leaf(**desc[1])
    if k == 'node':
        return Node(**{kk: build(v, symbolic) for kk, v in desc[1].items()})
    if k == 'pnode':
        return Node.partial(**{kk: build(v, symbolic) for kk, v in desc[1].items()})
    raise ValueError(desc)


# ---------------------------------------------------------------------------
# structural well-formedness (C01's walk; used as an oracle by several engines)


def walk(root):
    """Yields (node, parent, key, path_keys) for every symbolic node reachable
    from root through sym_items (root included, parent None).  Symbolic values
    held inside a plain tuple are not children of the container (pyglove
    treats a tuple as an opaque leaf value); they are yielded as sub-roots
    (parent None, key ('tuple', ...))."""
    stack = [(root, None, None, ())]
    expanded = set()
    while stack:
        node, parent, key, path = stack.pop()
        yield node, parent, key, path
        if id(node) in expanded:
            continue            # shared or cyclic: reported by the caller, not re-walked
        expanded.add(id(node))
        if isinstance(node, pg.Symbolic) and not isinstance(node, pg.Ref):
            try:
                items = list(node.sym_items())
            except Exception:  # pylint: disable=broad-except
                items = []
            for k, v in items:
                if isinstance(v, pg.Symbolic):
                    stack.append((v, node, k, path + (k,)))
                elif isinstance(v, tuple):
                    for e in _symbolic_in_tuple(v):
                        stack.append((e, None, ('tuple', k), ('<tuple>',)))


def _symbolic_in_tuple(t):
    for e in t:
        if isinstance(e, pg.Symbolic):
            yield e
        elif isinstance(e, tuple):
            yield from _symbolic_in_tuple(e)


def structure_errors(root, limit=3):
    """C01's invariant on one tree.  Returns a list of (code, message).

    A symbolic value inside a plain tuple has no parent (the tuple is a leaf
    value to pyglove) but is given the path of its position; its descendants
    are checked relative to it."""
    errs = []
    seen = {}
    prefix = {}          # id(node) -> expected absolute path keys
    for node, parent, key, path in walk(root):
        if id(node) in seen and path and path[0] == '<tuple>':
            continue        # one (immutable) tuple stored in two slots: its content is not a child
        if id(node) in seen:
            errs.append(('shared-node', f'node at {list(path)} also appears at '
                         f'{list(seen[id(node)])}'))
            if len(errs) >= limit:
                break
            continue
        seen[id(node)] = path
        if parent is None:
            prefix[id(node)] = list(node.sym_path.keys) if node is not root else \
                list(root.sym_path.keys)
            continue
        want = prefix[id(parent)] + [key]
        prefix[id(node)] = want
        if node.sym_parent is not parent:
            errs.append(('parent', f'node at {want}: sym_parent is '
                         f'{_short(node.sym_parent)} but it is stored in {_short(parent)}'))
        elif list(node.sym_path.keys) != want:
            errs.append(('path', f'node stored at {want} reports path '
                         f'{list(node.sym_path.keys)}'))
        else:
            base = parent
            while base.sym_parent is not None:
                base = base.sym_parent
            if base is root and root.sym_path.keys == []:
                try:
                    got = root.sym_get(node.sym_path)
                except Exception as e:  # pylint: disable=broad-except
                    got = e
                if got is not node:
                    errs.append(('lookup', f'root.sym_get({node.sym_path!r}) does not return '
                                 f'the node stored at {want}'))
        if len(errs) >= limit:
            break
    return errs


def _short(x):
    if x is None:
        return 'None'
    return f'{type(x).__name__}@{x.sym_path!r}' if isinstance(x, pg.Symbolic) else type(x).__name__
