"""C16 — concurrent sampling hands out each trial once and loses no feedback.

Real code: pg.sample, the in-memory backend (_InMemoryBackend/_InMemoryResult/
_InMemoryFeedback), Feedback, Result, every DNAGenerator, Evolution.
Stubs: worker evaluation (pure function of the DNA), locks / thread identity /
clock (simulated), the scheduler.

Workers are real threads stepped by sim.sched; every line of the tuning,
generator and evolution modules is a pre-emption point.
"""
import ast
import random as _global_random

import logging as _logging

import pyglove as pg
from pyglove.core.geno import dna_generator as _dna_generator
from pyglove.core.tuning import local_backend

from sim import sched
from sim.core import Streams, Violation, digest, small_hash
from engines import searchlib

PROPS = ['C16']

_null = _logging.getLogger('verif-null')
_null.addHandler(_logging.NullHandler())
_null.propagate = False
pg.logging.set_logger(_null)

WATCHED = frozenset([
    'create_trial', '_complete_trial', 'done', 'skip', 'next', 'feedback',
    'propose', '_propose', '_feedback', '__init__', 'setup', '_setup',
    'get_latest_trial', '_add_measurement', '_set_active', 'next_trial_id',
    '<lock.acquire>', '<lock.release>', '<rmw>', 'harness'])

ACTIONS = ['done', 'done', 'call', 'multi', 'skip', 'exc_skip', 'done2',
           'late_meas', 'early']


# exception classes that indicate broken shared state rather than an outcome
# of the search algorithm's arithmetic
CORRUPTION_ERRORS = frozenset([
    'AttributeError', 'AssertionError', 'RuntimeError', 'RecursionError',
    'TypeError', 'NameError', 'UnboundLocalError', 'RaceConditionError',
    'StopIteration'])


class WorkerDeath(Exception):
    pass


_TARGETS = None


def _target_modules():
    global _TARGETS
    if _TARGETS is None:
        cos = []
        for m in _target_modules_uncached():
            cos.extend(sched.code_objects_of(m))
        _TARGETS = cos
    return _TARGETS


def _target_modules_uncached():
    import importlib
    names = [
        'pyglove.core.tuning.local_backend', 'pyglove.core.tuning.sample',
        'pyglove.core.tuning.protocols', 'pyglove.core.tuning.backend',
        'pyglove.core.tuning.early_stopping',
        'pyglove.core.geno.dna_generator', 'pyglove.core.geno.random',
        'pyglove.core.geno.sweeping', 'pyglove.core.geno.deduping',
        'pyglove.ext.evolution.base',
        'pyglove.ext.early_stopping.step_wise',
    ]
    mods = []
    for n in names:
        try:
            mods.append(importlib.import_module(n))
        except ImportError:
            pass
    return mods


# ---------------------------------------------------------------------------
# case generation


def gen_case(streams: Streams, tier: str) -> dict:
    cfg = streams.get('config')
    kinds = ['sweeping', 'random', 'random', 'dedup_random', 'dedup_sweeping',
             'regevo', 'regevo', 'hill_climb', 'nsga2', 'neat', 'dedup_regevo']
    algo = searchlib.gen_algo(cfg, kinds)
    # `next_dna` is not supported on Float: sweeping needs float-free spaces
    space = searchlib.gen_space(cfg, max_points=3,
                                allow_float='sweeping' not in algo['kind'])
    n = cfg.randint(2, 10 if tier == 'quick' else 16)
    nworkers = cfg.randint(2, 5 if tier == 'quick' else 8)
    grouping = cfg.choice(['distinct', 'default', 'same', 'mixed'])
    groups = []
    for i in range(nworkers):
        if grouping == 'default':
            groups.append(None)
        elif grouping == 'distinct':
            groups.append(f'g{i}')
        elif grouping == 'same':
            groups.append('g')
        else:
            groups.append(cfg.choice([None, 'ga', 'ga', 'gb']))
    ops = streams.get('ops')
    mask = [a for a in ACTIONS if ops.random() < 0.7] or ['done']
    workers = []
    deaths = 0
    for i in range(nworkers):
        script = [ops.choice(mask) for _ in range(ops.randint(1, 6))]
        die_at = None
        if groups[i] is not None and ops.random() < 0.2 and deaths < 2:
            die_at = ops.randint(0, 3)
            deaths += 1
        end_loop_at = ops.randint(1, n) if ops.random() < 0.12 else None
        workers.append({'group': groups[i], 'script': script, 'die_at': die_at,
                        'end_loop_at': end_loop_at})
    s = streams.get('schedule')
    mode = s.choice(['random', 'random', 'pct', 'burst'])
    sc = {'mode': mode, 'seed': s.randint(0, 2 ** 31)}
    if mode == 'random':
        sc['p'] = s.choice([0.002, 0.01, 0.05, 0.2])
    elif mode == 'burst':
        sc['p'] = s.choice([0.0005, 0.002, 0.01])
        sc['p_hi'] = s.choice([0.1, 0.3, 0.5])
    else:
        sc['d'] = s.choice([1, 2, 3, 5])
        sc['est_steps'] = s.choice([3000, 10000, 30000])
    c = streams.get('clock')
    jumps = []
    if c.random() < 0.3:
        for _ in range(c.randint(1, 2)):
            jumps.append([c.randint(1, 60), c.choice([-3600.0, -5.0, 7200.0, 86400.0])])
    return {
        'space': space, 'algo': algo, 'n': n,
        'start': cfg.choice(['warm', 'warm', 'cold']),
        'early_stop': cfg.random() < 0.3,
        'workers': workers, 'sched': sc,
        'clock': {'seed': c.randint(0, 2 ** 31), 'jumps': jumps},
        'noise': streams.sub('noise') % (2 ** 31),
    }


# ---------------------------------------------------------------------------
# recording generator (public DNAGenerator interface only)


@pg.members([
    ('generator', pg.typing.Object(pg.DNAGenerator)),
])
class Recording(pg.DNAGenerator):
    """Wraps the real algorithm; logs every propose return / feedback call."""

    def _on_bound(self):
        super()._on_bound()
        self._ledger = None

    def attach(self, ledger):
        self._ledger = ledger

    @property
    def multi_objective(self):
        return self.generator.multi_objective

    @property
    def needs_feedback(self):
        return True

    def _setup(self):
        self._ledger.on_setup()
        self.generator.setup(self.dna_spec)

    def _propose(self):
        led = self._ledger
        led.enter_propose()
        try:
            dna = self.generator.propose()
        except StopIteration:
            led.exit_propose(None, stop=True)
            raise
        led.exit_propose(dna)
        return dna

    def _feedback(self, dna, reward):
        self._ledger.on_feedback(dna, reward)
        self.generator.feedback(dna, reward)


class ThresholdPolicy(pg.tuning.EarlyStoppingPolicy):
    """Stub early-stopping policy: stateless threshold on the last reward."""

    def should_stop_early(self, trial):
        m = trial.measurements[-1]
        return m.reward is not None and m.reward < 2.0


class Ledger:
    def __init__(self, sim):
        self.sim = sim
        self.proposals = []      # DNA objects in propose-return order
        self.by_id = {}
        self.feedbacks = {}      # proposal index -> count
        self.foreign_feedback = 0
        self.in_propose = 0
        self.propose_overlap = 0
        self.stop_seen = 0
        self.setups = 0

    def on_setup(self):
        self.setups += 1
        self.sim.log('algo-setup')

    def enter_propose(self):
        if self.in_propose:
            self.propose_overlap += 1
        self.in_propose += 1

    def exit_propose(self, dna, stop=False):
        self.in_propose -= 1
        if stop:
            self.stop_seen += 1
            self.sim.log('propose-stop')
            return
        idx = len(self.proposals)
        self.proposals.append(dna)
        self.by_id[id(dna)] = idx
        self.sim.log('propose', idx=idx)

    def on_feedback(self, dna, reward):
        idx = self.by_id.get(id(dna))
        if idx is None:
            self.foreign_feedback += 1
            self.sim.log('feedback-foreign')
            return
        self.feedbacks[idx] = self.feedbacks.get(idx, 0) + 1
        self.sim.log('feedback', idx=idx)


# ---------------------------------------------------------------------------
# running one case


def run_case(case: dict, prop='C16'):
    """Returns dict(violations, digest, nontrivial, faults, probes, steps,
    sim_time, states, decisions, sample)."""
    out = _run_once(case)
    if out['worker_excs'] and not out['violations']:
        # Differential: does the same exception class occur with no
        # pre-emption at all?  Then it is workload-induced, not a race.
        seq_case = dict(case)
        seq_case['sched'] = {'mode': 'script', 'decisions': []}
        ref = _run_once(seq_case)
        ref_classes = {c for _, c, _ in ref['worker_excs']}
        for wi, cls, msg in out['worker_excs']:
            if cls not in CORRUPTION_ERRORS:
                # the search algorithm's own arithmetic (e.g. all-zero
                # weights, empty population) depends on which rewards arrived
                # first; C16 says nothing about it
                out['probes']['workload_exception_unjudged'] = 1
                continue
            if cls not in ref_classes:
                out['violations'].append(Violation(
                    prop, 'C16.worker-exception',
                    f'C16.worker-exception|{cls}',
                    f'worker {wi} died with {cls}: {msg} (does not occur '
                    f'without pre-emption)'))
            else:
                out['probes']['workload_exception_also_sequential'] = 1
    return out


def _run_once(case: dict):
    _global_random.seed(case.get('noise', 0))
    local_backend._in_memory_results.clear()
    sim = sched.Sim(case['sched'], _target_modules(), WATCHED)
    clock = sched.SimClock(case['clock']['seed'], case['clock']['jumps'])
    seams = sched.Seams(sim, clock)
    seams.install()
    try:
        return _run_with_seams(case, sim, clock, seams)
    finally:
        seams.uninstall()
        local_backend._in_memory_results.clear()


def _run_with_seams(case, sim, clock, seams):
    algo_desc = case['algo']
    multi = searchlib.is_multi_objective(algo_desc)
    metrics = ['reward', 'aux'] if multi else ['reward']
    inner = searchlib.build_algo(algo_desc)
    rec = Recording(inner)
    ledger = Ledger(sim)
    rec.attach(ledger)
    n = case['n']
    study = 'study'
    policy = None
    if case.get('early_stop'):
        policy = ThresholdPolicy()

    probes = {}
    faults = {}

    def fault(kind, k=1):
        faults[kind] = faults.get(kind, 0) + k

    specs = [searchlib.build_root_space(case['space']) for _ in range(2)]
    if case['start'] == 'warm':
        # create the study and set the algorithm up before workers start
        local_backend._InMemoryBackend(
            study, 'boot', specs[1], rec, metrics, policy, n)
    else:
        fault('simultaneous_first_caller')

    deliveries = []     # (seq, worker, group_key, trial_id)
    acts = []           # (seq_start, seq_end, worker, trial_id, action, outcome)
    end_loop_calls = []
    died = []
    holder_died_trials = set()
    worker_excs = []
    state = {'completed_calls': 0}

    def make_worker(wi, wcfg, script_offset=0, replacement=False):
        # workers pass one of two equal-but-distinct DNASpec objects (built
        # outside the simulated run; DNASpecs are read-only while sampling)
        # (the early-stopping policy compares specs with `!=`, i.e. by
        # identity, so with a policy every worker passes the same object)
        spec = specs[1] if policy is not None else specs[wi % 2]

        def worker(task):
            group = wcfg['group']
            gkey = group if group is not None else f'<thread {1000 + task.tid}>'
            idx = script_offset
            try:
                for example, fb in pg.sample(
                        spec, rec, num_examples=n, name=study, group=group,
                        early_stopping_policy=policy,
                        metrics_to_optimize=metrics):
                    tid = fb.id
                    deliveries.append((sim.log('deliver', w=wi, g=gkey, t=tid),
                                       wi, gkey, tid))
                    action = wcfg['script'][idx % len(wcfg['script'])]
                    if (wcfg.get('die_at') is not None and not replacement
                            and idx == wcfg['die_at']):
                        fault('worker_death')
                        died.append(wi)
                        holder_died_trials.add(tid)
                        sim.log('die', w=wi, t=tid)
                        # the replacement is a new task with the same group
                        sim.spawn(make_worker(wi, wcfg, idx + 1, True),
                                  name=f'w{wi}r')
                        fault('worker_restart_same_group')
                        raise WorkerDeath()
                    idx += 1
                    sim.preempt_point('harness')
                    _perform(sim, fb, action, tid, wi, multi, acts, state)
                    if wcfg.get('end_loop_at') == idx:
                        end_loop_calls.append(sim.log('end_loop', w=wi))
                        fb.end_loop()
            except WorkerDeath:
                pass
            except sched.SimAbort:
                raise
            except Exception as e:  # pylint: disable=broad-except
                worker_excs.append((wi, type(e).__name__, str(e)[:300]))
                sim.log('worker-exception', w=wi, cls=type(e).__name__)
        return worker

    for wi, wcfg in enumerate(case['workers']):
        sim.spawn(make_worker(wi, wcfg), name=f'w{wi}')

    violations = []
    harness_fail = None
    try:
        sim.run()
    except sched.Deadlock as e:
        violations.append(Violation(
            'C16', 'C16.deadlock', 'C16.deadlock',
            f'no task runnable, wait-for graph {e}'))
    except sched.StepCap as e:
        violations.append(Violation(
            'C16', 'C16.liveness', 'C16.liveness',
            f'workers did not reach quiescence within {sim.max_steps} '
            f'pre-emption points: {e}'))
    for k, v in clock.jumps_fired.items():
        if v:
            fault(k, v)
    fault('ctx_switch', sim.switches)
    if sim.lock_contention:
        fault('lock_contention', sim.lock_contention)
    if sim.watched_hits and case['sched']['mode'] == 'burst':
        fault('forced_switch_at_watched_site', sim.watched_hits)

    if not violations:
        violations.extend(_check(case, sim, rec, inner, ledger, deliveries,
                                 acts, end_loop_calls, holder_died_trials,
                                 worker_excs, probes, study, n, multi))

    probes['propose_overlap'] = ledger.propose_overlap
    probes['two_workers_same_trial'] = int(
        len({(w, t) for _, w, _, t in deliveries})
        > len({t for _, _, _, t in deliveries}))
    probes['algo_exhausted'] = ledger.stop_seen
    probes['end_loop'] = len(end_loop_calls)
    probes['deaths'] = len(died)

    proj = [(tid, kind, sorted(d.items())) for _, tid, kind, d in sim.events]
    workers_with_delivery = len({w for _, w, _, _ in deliveries})
    return {
        'violations': violations,
        'digest': digest([proj, sim.decisions, sim.steps]),
        'interleaving': small_hash(proj),
        'nontrivial': bool(len(sim.decisions) >= 1 and workers_with_delivery >= 2),
        'faults': faults, 'probes': probes, 'steps': sim.steps,
        'sim_time': clock.elapsed(),
        'states': [small_hash([k, sorted(d.items())]) for _, _, k, d in sim.events[:200]],
        'decisions': sim.decisions,
        'worker_excs': worker_excs,
        'seams': dict(seams.replaced),
        'summary': {'n': n, 'workers': len(case['workers']),
                    'algo': algo_desc['kind'], 'mode': case['sched']['mode'],
                    'switches': sim.switches, 'steps': sim.steps,
                    'deliveries': len(deliveries)},
    }


def _perform(sim, fb, action, tid, wi, multi, acts, state):
    dna = fb.dna
    r = searchlib.reward_of(dna, tid, multi)
    if multi:
        reward, metrics_kw = r[0], {'aux': r[1]}
    else:
        reward, metrics_kw = r, None
    s0 = sim.log('act', w=wi, t=tid, a=action)
    outcome = 'ok'
    with fb.ignore_race_condition():
        if action == 'done':
            fb.add_measurement(reward, metrics=metrics_kw, step=1)
            fb.done()
        elif action == 'call':
            fb(reward, metrics=metrics_kw)
        elif action == 'multi':
            for st in range(1, 4):
                fb.add_measurement(reward - (3 - st), metrics=metrics_kw, step=st)
                sim.preempt_point('harness')
            fb.done()
        elif action == 'skip':
            fb.skip()
        elif action == 'exc_skip':
            with fb.skip_on_exceptions((ValueError,)):
                raise ValueError('evaluation failed')
        elif action == 'done2':
            fb.add_measurement(reward, metrics=metrics_kw, step=1)
            fb.done()
            fb.done()
        elif action == 'late_meas':
            fb.add_measurement(reward, metrics=metrics_kw, step=1)
            fb.done()
            sim.preempt_point('harness')
            fb.add_measurement(reward, metrics=metrics_kw, step=2)
            outcome = 'late-accepted'
        elif action == 'early':
            fb.add_measurement(reward, metrics=metrics_kw, step=1)
            if fb.should_stop_early():
                fb.skip()
            else:
                fb.done()
        else:
            raise ValueError(action)
    s1 = sim.log('act-end', w=wi, t=tid)
    acts.append((s0, s1, wi, tid, action, outcome))


# ---------------------------------------------------------------------------
# oracle


def _check(case, sim, rec, inner, ledger, deliveries, acts, end_loop_calls,
           holder_died_trials, worker_excs, probes, study, n, multi):
    V = []

    def bad(oracle, detail, msg):
        V.append(Violation('C16', oracle, f'{oracle}|{detail}', msg))

    try:
        res = pg.poll_result(study)
    except ValueError:
        bad('C16.study', 'missing', 'no study registered at quiescence')
        return V
    trials = list(res.trials)
    ids = [t.id for t in trials]
    M = len(trials)

    # -- exactly the requested number of trials, ids 1..M each once
    if ids != list(range(1, M + 1)):
        bad('C16.ids', 'not-1..M', f'trial ids {ids}')
    if M > n:
        bad('C16.ids', 'too-many', f'{M} trials created for num_examples={n}')
    if M < n and not end_loop_calls and not ledger.stop_seen and not worker_excs:
        bad('C16.ids', 'too-few',
            f'{M} trials created for num_examples={n} with no end_loop and '
            f'no exhausted algorithm')
    if ledger.setups > 1:
        bad('C16.setup', 'twice', f'algorithm.setup ran {ledger.setups} times')
    if len(ledger.proposals) != M:
        bad('C16.proposals', 'count',
            f'{len(ledger.proposals)} propose() returns for {M} trials '
            f'(private studies or lost trials)')

    # -- every trial belongs to one group
    groups_of = {}
    for seq, w, g, t in deliveries:
        groups_of.setdefault(t, set()).add(g)
    for t, gs in sorted(groups_of.items()):
        if len(gs) > 1:
            bad('C16.group', 'two-groups',
                f'trial {t} delivered to groups {sorted(gs)}')
    delivered_ids = set(groups_of)
    for t in delivered_ids:
        if t < 1 or t > M:
            bad('C16.ids', 'unknown-delivered',
                f'worker received trial id {t} but the study has {M} trials')

    # -- same group => same pending trial until it is finished: a group never
    # has two different trials that are both pending and untouched (nobody
    # has even started a done/skip call on them)
    first_act = {}
    for s0, s1, w, t, a, o in acts:
        first_act[t] = min(first_act.get(t, s0), s0)
    given = {}
    for seq, w, g, t in deliveries:
        fa_t = first_act.get(t)
        if fa_t is None or fa_t > seq:
            for prev in sorted(given.get(g, ())):
                if prev == t:
                    continue
                fa = first_act.get(prev)
                if fa is None or fa > seq:
                    bad('C16.group', 'second-pending',
                        f'group {g} was given trial {t} at event {seq} while '
                        f'its trial {prev} was still pending and untouched')
        given.setdefault(g, set()).add(t)

    # -- status / counts at quiescence
    pending = [t.id for t in trials if t.status != 'COMPLETED']
    allowed_pending = set()
    if end_loop_calls or worker_excs:
        # a trial whose holder died (or never got to act) may legitimately
        # stay pending once the loop was ended
        allowed_pending = set(pending)
    for t in pending:
        if t not in allowed_pending:
            bad('C16.status', 'pending-at-quiescence',
                f'trial {t} is {trials[t - 1].status} after all workers returned')
    # feedback exactly once per done trial, never for skipped ones
    F = 0
    for i, tr in enumerate(trials):
        if i >= len(ledger.proposals):
            break
        fbn = ledger.feedbacks.get(ledger.by_id.get(id(tr.dna), -1), 0)
        if tr.status == 'COMPLETED' and not tr.infeasible:
            F += 1
            if fbn != 1:
                bad('C16.feedback', 'lost' if fbn == 0 else 'duplicate',
                    f'trial {tr.id} completed with a reward but the '
                    f'algorithm received {fbn} feedback calls')
        else:
            if fbn != 0:
                bad('C16.feedback', 'unexpected',
                    f'trial {tr.id} (status={tr.status}, infeasible='
                    f'{tr.infeasible}) got {fbn} feedback calls')
    if ledger.foreign_feedback:
        bad('C16.feedback', 'foreign',
            f'{ledger.foreign_feedback} feedback calls for DNAs never proposed')
    total_fb = sum(ledger.feedbacks.values())
    for name, g in (('recording', rec), ('algorithm', inner)):
        if g.num_proposals != len(ledger.proposals):
            bad('C16.counter', f'num_proposals-{name}',
                f'{name}.num_proposals={g.num_proposals} after '
                f'{len(ledger.proposals)} propose() returns')
        if g.num_feedbacks != total_fb:
            bad('C16.counter', f'num_feedbacks-{name}',
                f'{name}.num_feedbacks={g.num_feedbacks} after {total_fb} '
                f'feedback() calls')

    # -- summary agrees with the trial list
    try:
        summary = ast.literal_eval(repr(res))
    except Exception as e:  # pylint: disable=broad-except
        summary = None
        bad('C16.summary', 'unparsable', f'repr(result) not a literal: {e}')
    if summary is not None:
        ncomp = sum(1 for t in trials if t.status == 'COMPLETED')
        npend = sum(1 for t in trials if t.status == 'PENDING')
        ninf = sum(1 for t in trials if t.infeasible)
        st = summary.get('status', {})
        exp = {}
        if npend:
            exp['PENDING'] = f'{npend}/{M}'
        if ncomp:
            exp['COMPLETED'] = f'{ncomp}/{M}'
        if dict(st) != exp:
            bad('C16.summary', 'status-counts',
                f'summary status {dict(st)} but trial list gives {exp}')
        inf = summary.get('infeasible')
        if (inf or None) != (f'{ninf}/{M}' if ninf else None):
            bad('C16.summary', 'infeasible-count',
                f'summary infeasible {inf!r}, trial list has {ninf}/{M}')
    # -- best trial
    feas = [t for t in trials if t.status == 'COMPLETED' and not t.infeasible
            and t.final_measurement is not None
            and t.final_measurement.reward is not None]
    best = res.best_trial
    if best is not None:
        if best.infeasible:
            bad('C16.best', 'infeasible', f'best trial {best.id} is infeasible')
        elif feas:
            mx = max(t.final_measurement.reward for t in feas)
            if best.final_measurement.reward < mx:
                bad('C16.best', 'not-max',
                    f'best trial {best.id} has reward '
                    f'{best.final_measurement.reward} < max {mx}')
        if not any(best is t for t in trials):
            bad('C16.best', 'not-a-trial', 'best trial is not in the trial list')
    elif feas:
        bad('C16.best', 'missing',
            f'{len(feas)} feasible completed trials but no best trial')
    # final measurement of a completed feasible trial is its last measurement
    for tr in trials:
        if tr.status == 'COMPLETED' and not tr.infeasible:
            if tr.final_measurement is None:
                bad('C16.status', 'no-final-measurement',
                    f'trial {tr.id} completed without final measurement')
    return V


# ---------------------------------------------------------------------------
# shrinking / replay support


def to_script_case(case, result):
    """The same case with the schedule replaced by the recorded decisions."""
    c = dict(case)
    c['sched'] = {'mode': 'script', 'decisions': [list(d) for d in result['decisions']]}
    return c


def shrink_candidates(case):
    """Yield (label, smaller_case) in order of preference."""
    # fewer workers
    ws = case['workers']
    if len(ws) > 2 and case['sched']['mode'] != 'script':
        for i in range(len(ws)):
            c = dict(case)
            c['workers'] = ws[:i] + ws[i + 1:]
            yield f'drop-worker-{i}', c
    if case['n'] > 2:
        c = dict(case)
        c['n'] = case['n'] - 1
        yield 'fewer-trials', c
    if case['clock']['jumps']:
        c = dict(case)
        c['clock'] = dict(case['clock'], jumps=[])
        yield 'no-clock-jumps', c
    for i, w in enumerate(ws):
        if len(w['script']) > 1:
            c = dict(case)
            c['workers'] = [dict(x) for x in ws]
            c['workers'][i]['script'] = w['script'][:1]
            yield f'short-script-{i}', c
        if w.get('die_at') is not None:
            c = dict(case)
            c['workers'] = [dict(x) for x in ws]
            c['workers'][i]['die_at'] = None
            yield f'no-death-{i}', c
        if w.get('end_loop_at') is not None:
            c = dict(case)
            c['workers'] = [dict(x) for x in ws]
            c['workers'][i]['end_loop_at'] = None
            yield f'no-end-loop-{i}', c


LIST_PARTS = [('sched', 'decisions')]


# ---------------------------------------------------------------------------
# driver interface


def budget(tier):
    if tier == 'quick':
        return {'runs': 2400, 'wall': 70, 'chunk': 6, 'selftest': 6,
                'minimise_s': 90, 'canary_runs': 1500, 'canary_wall': 90}
    return {'runs': 40000, 'wall': 900, 'chunk': 8, 'selftest': 16,
            'minimise_s': 240, 'canary_runs': 1500, 'canary_wall': 90}


RULE = ('Each run: a seeded case (DNASpec, algorithm, num_examples, 2-8 worker '
        'scripts with group assignment, deaths/restarts, end_loop, warm/cold start, '
        'clock jumps) executed by real worker threads under the seeded scheduler '
        '(random walk p in {0.002..0.2}, PCT d in {1,2,3,5}, burst at watched sites). '
        'Non-trivial: >= 1 recorded scheduling decision and >= 2 workers received a '
        'trial. Distinct: digest of the event log projected on (task, event kind, '
        'data) plus the decision list.')
DISTINCT_MEASURE = ('distinct_interleavings = distinct hashes of the per-run event '
                    'sequence (task id, lock acquire/release, propose, feedback, '
                    'deliver, act); distinct_states = distinct (event kind, data) '
                    'records seen')
COMPONENTS = {
    'real': ['pg.sample', 'pyglove.core.tuning.local_backend (backend, study, feedback)',
             'pyglove.core.tuning.protocols (Feedback, Trial, Measurement)',
             'pyglove.core.geno DNAGenerator / Random / Sweeping / Deduping',
             'pyglove.ext.evolution Evolution + regularized_evolution / hill_climb / nsga2 / neat',
             'threading.local (real, per task thread)'],
    'stub': ['worker evaluation (reward = pure function of DNA numbers)',
             'threading.Lock / get_ident (SimLock, task id)', 'time.time / datetime.now (SimClock)',
             'thread scheduler (baton passing at sys.monitoring LINE events and '
             'read-modify-write INSTRUCTION windows)',
             'early stopping policy (stateless threshold)'],
}
ASSUMPTIONS = [
    'pre-emption at line granularity plus the in-place-operator windows of attribute/item '
    'read-modify-writes inside the tuning, geno generator and evolution modules',
    'a clean batch is evidence, not proof',
    'workers use explicit groups when they may die (with the default per-thread group nobody '
    'can legally resume the orphaned trial)',
]


# ---------------------------------------------------------------------------
# canaries (sensitivity self-test): realistic breaking changes, by monkeypatch


def _canary_targets_reset():
    global _TARGETS
    _TARGETS = None


def _c_create_trial_no_lock():
    from sim.canary import patch_source
    patch_source(local_backend._InMemoryResult, 'create_trial',
                 'with self._lock:', 'if True:')
    _canary_targets_reset()


def _c_complete_trial_no_lock():
    from sim.canary import patch_source
    patch_source(local_backend._InMemoryResult, '_complete_trial',
                 'with self._lock:', 'if True:')
    _canary_targets_reset()


def _c_done_unlocked():
    from sim.canary import patch_source
    patch_source(local_backend._InMemoryFeedback, 'done',
                 'with self._study._lock:', 'if True:')
    _canary_targets_reset()


def _c_skip_unlocked():
    from sim.canary import patch_source
    patch_source(local_backend._InMemoryFeedback, 'skip',
                 'with self._study._lock:', 'if True:')
    _canary_targets_reset()


def _c_feedback_unlocked():
    from sim.canary import patch_source
    patch_source(local_backend._InMemoryBackend, '_feedback',
                 'with self._study._lock:', 'if True:')
    _canary_targets_reset()


def _c_group_recheck_removed():
    from sim.canary import patch_source
    patch_source(local_backend._InMemoryResult, 'create_trial',
                 "if trial is not None and trial.status == 'PENDING':",
                 'if False:')
    _canary_targets_reset()


def _c_setup_unlocked():
    from sim.canary import patch_source
    patch_source(local_backend._InMemoryBackend, '__init__',
                 'with _in_memory_setup_lock:', 'if True:', count=2)
    _canary_targets_reset()


def _c_next_ignores_pending():
    from sim.canary import patch_source
    patch_source(local_backend._InMemoryBackend, 'next',
                 "if trial is None or trial.status != 'PENDING':", 'if True:')
    patch_source(local_backend._InMemoryResult, 'create_trial',
                 "if trial is not None and trial.status == 'PENDING':",
                 'if False:')
    _canary_targets_reset()


def _c_trial_id_before_lock():
    from sim.canary import patch_source
    patch_source(local_backend._InMemoryResult, 'create_trial',
                 '  with self._lock:', '  tid = self.next_trial_id()\n  with self._lock:')
    patch_source(local_backend._InMemoryResult, 'create_trial',
                 'trial = Trial(id=self.next_trial_id(),', 'trial = Trial(id=tid,')
    _canary_targets_reset()


CANARIES = {
    'create_trial_no_lock': {'apply': _c_create_trial_no_lock},
    'complete_trial_no_lock': {'apply': _c_complete_trial_no_lock},
    'done_unlocked': {'apply': _c_done_unlocked},
    'skip_unlocked': {'apply': _c_skip_unlocked},
    'feedback_unlocked': {'apply': _c_feedback_unlocked},
    'group_recheck_removed': {'apply': _c_group_recheck_removed},
    'setup_unlocked': {'apply': _c_setup_unlocked},
    'next_ignores_pending': {'apply': _c_next_ignores_pending},
    'trial_id_before_lock': {'apply': _c_trial_id_before_lock},
}
