"""C05 — what is saved is what is loaded (persistence clause in full; value
space as payload).

Histories of save / overwrite / append / load / rm / listdir over a small set
of paths on (a) the real StdFileSystem running on a simulated disk (I/O
errors, ENOSPC with short writes, process crash with un-flushed buffers),
(b) the real MemoryFileSystem, (c) the real LineSequence on both and the real
MemorySequence; checked against a map model (read-your-writes).  Loaded values
must be pg.eq, same type, same hash and well-formed trees.
"""
import copy
import io as _real_io
import pickle
import random as _global_random

import pyglove as pg
from pyglove.core.io import file_system as fs_mod
from pyglove.core.io import sequence as seq_mod

from sim.core import Streams, Violation, digest, small_hash
from sim.simdisk import SimDisk
from engines import values

PROPS = ['C05']

STD_PATHS = ['/simdisk/a.json', '/simdisk/d1/b.json', '/simdisk/d1/d2/c.json',
             '/simdisk/m.json', '/simdisk/mem.json', '/simdisk/d1/e.txt']
MEM_PATHS = ['/mem/m.json', '/mem/e.json', '/mem/e/mem.json', '/mem/x/y.json',
             '/mem/me.json', '/mem/.hidden.json', '/mem/a.b/c.d.json', '/mem/t.txt']
SEQ_PATHS = ['/simdisk/log.jsonl', '/simdisk/d1/rec.jsonl', '/mem/log.jsonl',
             '/mem/me.jsonl', '/simdisk/s1.mem', '/mem/s2.mem']

RAW_RECORDS = ['', 'a', ' sp ', '\tx', 'x y  ', '{"j": 1}', 'üñí 中', '[1, 2', 'end\r', '  ']

UNKNOWN = ('unknown',)
ABSENT = ('absent',)


def _is_mem_path(p):
    return p.startswith('/mem/')


def _is_memseq(p):
    return p.endswith('.mem')


# ---------------------------------------------------------------------------
# case generation


def gen_case(streams: Streams, tier: str) -> dict:
    cfg = streams.get('config')
    which = cfg.choice(['std', 'mem', 'both', 'both'])
    pool = []
    if which in ('std', 'both'):
        pool += cfg.sample(STD_PATHS, cfg.randint(1, 3))
    if which in ('mem', 'both'):
        pool += cfg.sample(MEM_PATHS, cfg.randint(1, 3))
    seqs = [p for p in SEQ_PATHS if (which != 'mem' or not p.startswith('/simdisk'))
            and (which != 'std' or p.startswith('/simdisk'))]
    seqs = cfg.sample(seqs, min(len(seqs), cfg.randint(1, 2)))
    ops_rng = streams.get('ops')
    vals = streams.get('values')
    n = ops_rng.randint(4, 18 if tier == 'quick' else 30)
    with_faults = cfg.random() < 0.5
    kinds = ['save', 'save', 'save', 'load', 'load', 'load', 'save_txt', 'write', 'append',
             'read', 'rm', 'exists', 'listdir', 'seq_open', 'seq_add', 'seq_add', 'seq_add',
             'seq_flush', 'seq_close', 'seq_read', 'value_roundtrip']
    mask = [k for k in sorted(set(kinds)) if ops_rng.random() < 0.75] or ['save', 'load']
    kinds = [k for k in kinds if k in mask]
    ops = []
    for _ in range(n):
        k = ops_rng.choice(kinds)
        op = {'op': k}
        if k in ('save', 'load', 'save_txt', 'write', 'append', 'read', 'rm', 'exists'):
            op['p'] = ops_rng.randrange(8)
        if k.startswith('seq_'):
            op['p'] = ops_rng.randrange(4)
        if k == 'save':
            op['v'] = values.gen_value(vals, max_depth=3, special_floats=True, partial_objects=True)
            op['indent'] = ops_rng.choice([None, None, 1, 2])
        if k == 'save_txt':
            op['s'] = vals.choice(values.STRINGS)
        if k in ('write', 'append'):
            op['binary'] = ops_rng.random() < 0.3
            op['s'] = ''.join(vals.choice(values.STRINGS) for _ in range(vals.randint(0, 3)))
        if k == 'seq_open':
            op['mode'] = ops_rng.choice(['w', 'w', 'a'])
            op['raw'] = ops_rng.random() < 0.3
            if ops_rng.random() < 0.6:
                # a coherent session: open, add..., (flush), (crash), close, read
                ops.append(op)
                for _ in range(ops_rng.randint(1, 4)):
                    ops.append({'op': 'seq_add', 'p': op['p'],
                                'v': values.gen_value(vals, max_depth=2, partial_objects=True),
                                's': vals.choice(RAW_RECORDS)})
                    if ops_rng.random() < 0.3:
                        ops.append({'op': 'seq_flush', 'p': op['p']})
                if with_faults and ops_rng.random() < 0.25:
                    ops.append({'op': 'crash'})
                ops.append({'op': 'seq_close', 'p': op['p']})
                ops.append({'op': 'seq_read', 'p': op['p']})
                continue
        if k == 'seq_add':
            op['v'] = values.gen_value(vals, max_depth=2, special_floats=True, partial_objects=True)
            op['s'] = vals.choice(RAW_RECORDS)
        if k == 'value_roundtrip':
            op['v'] = values.gen_value(vals, max_depth=3, partial_objects=True)
            op['how'] = ops_rng.choice(['json', 'json_str', 'pickle', 'deepcopy', 'copy'])
        if k == 'listdir':
            op['d'] = ops_rng.choice(['/simdisk', '/simdisk/d1', '/mem/', '/mem/e', '/mem/x'])
        ops.append(op)
        if with_faults and ops_rng.random() < 0.08:
            ops.append({'op': 'crash'})
    f = streams.get('faults')
    faults = {'eio_at': [], 'byte_budget': None, 'buffer_size': f.choice([0, 8, 64, 4096])}
    if with_faults:
        if f.random() < 0.6:
            faults['eio_at'] = sorted(f.sample(range(1, 60), f.randint(1, 3)))
        if f.random() < 0.3:
            faults['byte_budget'] = f.choice([40, 200, 1000])
    return {'paths': pool, 'seqs': seqs, 'ops': ops, 'faults': faults,
            'noise': streams.sub('noise') % (2 ** 31)}


# ---------------------------------------------------------------------------
# running


class _Seams:
    """Fresh registries + simulated disk for one run (process restart)."""

    def __init__(self, disk):
        self.disk = disk

    def __enter__(self):
        self.saved = (fs_mod._fs, fs_mod.io, fs_mod.os, seq_mod._registry)
        reg = fs_mod._FileSystemRegistry()
        reg.add('/mem/', fs_mod.MemoryFileSystem('/mem/'))
        fs_mod._fs = reg
        fs_mod.io = self.disk.make_io(_real_io)
        fs_mod.os = self.disk.make_os()
        sreg = seq_mod._SequenceIORegistry()
        sreg.add('mem', seq_mod.MemorySequenceIO())
        seq_mod._registry = sreg
        return self

    def restart_memory(self):
        """A process crash also loses everything the in-memory backends held."""
        reg = fs_mod._FileSystemRegistry()
        reg.add('/mem/', fs_mod.MemoryFileSystem('/mem/'))
        fs_mod._fs = reg
        sreg = seq_mod._SequenceIORegistry()
        sreg.add('mem', seq_mod.MemorySequenceIO())
        seq_mod._registry = sreg

    def __exit__(self, *a):
        fs_mod._fs, fs_mod.io, fs_mod.os, seq_mod._registry = self.saved


def _same(loaded, original):
    """None if `loaded` is an exact reproduction of `original`."""
    if type(loaded) is not type(original):
        return f'type {type(loaded).__name__} != {type(original).__name__}'
    if not pg.eq(loaded, original):
        return f'not pg.eq: loaded {loaded!r:.300} vs saved {original!r:.300}'
    if not pg.eq(original, loaded):
        return 'pg.eq is not symmetric on this pair'
    try:
        if pg.hash(loaded) != pg.hash(original):
            return 'pg.hash differs'
    except TypeError:
        pass
    if isinstance(loaded, pg.Symbolic):
        errs = values.structure_errors(loaded)
        if errs:
            return f'loaded value is not a well-formed tree: {errs[0]}'
    return None


def run_case(case: dict, prop='C05'):
    _global_random.seed(case.get('noise', 0))
    fz = case['faults']
    disk = SimDisk(buffer_size=fz.get('buffer_size', 64), byte_budget=fz.get('byte_budget'),
                   eio_at=fz.get('eio_at', ()))
    with _Seams(disk) as seams:
        return _run(case, disk, seams)


def _run(case, disk, seams):
    violations = []
    faults = {}
    probes = {}
    states = []
    log = []
    paths = case['paths']
    seqs = case['seqs']
    model = {}          # path -> state tuple
    seq_model = {}      # path -> {'acked': [descs], 'pending': [descs]}
    writers = {}        # path -> (sequence object, mode)
    any_fault = [False]
    relaxed = [0]

    def bad(oracle, detail, msg, step):
        violations.append(Violation('C05', oracle, f'{oracle}|{detail}', f'[op {step}] {msg}',
                                    step=step))

    def fs_kind(p):
        if _is_memseq(p):
            return 'memseq'
        return 'mem' if _is_mem_path(p) else 'std'

    def ensure_parent(p):
        pg.io.mkdirs(p.rsplit('/', 1)[0], exist_ok=True)

    for step, op in enumerate(case['ops']):
        if violations:
            break
        k = op['op']
        p = None
        if 'p' in op:
            plist = seqs if k.startswith('seq_') else paths
            if not plist:
                continue
            p = plist[op['p'] % len(plist)]
        st = model.get(p, ABSENT) if p is not None else None
        injected = None
        try:
            if k == 'save':
                v = values.build(op['v'])
                try:
                    pg.save(v, p, indent=op.get('indent'))
                    model[p] = ('json', op['v'])
                    log.append([k, p, 'ok'])
                    if st[0] in ('json', 'text', 'bytes'):
                        probes['overwrite'] = probes.get('overwrite', 0) + 1
                except OSError as e:
                    injected = e
                    model[p] = UNKNOWN
            elif k == 'save_txt':
                try:
                    pg.save(op['s'], p, file_format='txt')
                    model[p] = ('text', op['s'])
                    log.append([k, p, 'ok'])
                except OSError as e:
                    injected = e
                    model[p] = UNKNOWN
            elif k == 'write':
                content = op['s'].encode('utf-8') if op['binary'] else op['s']
                try:
                    ensure_parent(p)
                    pg.io.writefile(p, content, mode='wb' if op['binary'] else 'w')
                    model[p] = ('bytes', op['s']) if op['binary'] else ('text', op['s'])
                    log.append([k, p, 'ok'])
                except OSError as e:
                    injected = e
                    model[p] = UNKNOWN
            elif k == 'append':
                if st[0] not in ('text', 'bytes') or (st[0] == 'bytes') != op['binary']:
                    continue
                content = op['s'].encode('utf-8') if op['binary'] else op['s']
                try:
                    pg.io.writefile(p, content, mode='ab' if op['binary'] else 'a')
                    model[p] = (st[0], st[1] + op['s'])
                    log.append([k, p, 'ok'])
                    probes['append'] = probes.get('append', 0) + 1
                except OSError as e:
                    injected = e
                    model[p] = UNKNOWN
            elif k in ('load', 'read'):
                if st == UNKNOWN:
                    relaxed[0] += 1
                    try:
                        pg.io.readfile(p, nonexist_ok=True)
                    except Exception:  # pylint: disable=broad-except
                        pass
                    continue
                if st == ABSENT:
                    try:
                        pg.load(p) if k == 'load' else pg.io.readfile(p)
                        bad('C05.read-absent', fs_kind(p),
                            f'{k}({p!r}) succeeded but nothing was ever saved there', step)
                    except FileNotFoundError:
                        log.append([k, p, 'absent-ok'])
                    except OSError as e:
                        injected = e
                    continue
                try:
                    if st[0] == 'json':
                        got = pg.load(p)
                        why = _same(got, values.build(st[1]))
                        if why:
                            bad('C05.read-your-writes', f'{fs_kind(p)}|json',
                                f'pg.load({p!r}) is not the last value saved there: {why}', step)
                    elif st[0] == 'text':
                        got = pg.load(p, file_format='txt') if k == 'load' else pg.io.readfile(p)
                        if got != st[1]:
                            bad('C05.read-your-writes', f'{fs_kind(p)}|text',
                                f'read {got!r:.200} from {p!r} but last wrote {st[1]!r:.200}', step)
                    elif st[0] == 'bytes':
                        got = pg.io.readfile(p, mode='rb')
                        if got != st[1].encode('utf-8'):
                            bad('C05.read-your-writes', f'{fs_kind(p)}|bytes',
                                f'read {got!r:.200} from {p!r} but last wrote {st[1]!r:.200}', step)
                    log.append([k, p, st[0]])
                except OSError as e:
                    if isinstance(e, FileNotFoundError) or not any_fault[0] and not disk.eio_at \
                            and disk.byte_budget is None:
                        bad('C05.read-your-writes', f'{fs_kind(p)}|{type(e).__name__}',
                            f'{k}({p!r}) raised {type(e).__name__}: {e} although a '
                            f'{st[0]} value was saved there', step)
                    else:
                        injected = e
            elif k == 'rm':
                if st == ABSENT:
                    try:
                        pg.io.rm(p)
                        bad('C05.rm-absent', fs_kind(p), f'rm({p!r}) of a missing file succeeded', step)
                    except (FileNotFoundError, AssertionError):
                        pass
                    except OSError as e:
                        injected = e
                    continue
                try:
                    pg.io.rm(p)
                    model[p] = ABSENT
                    log.append([k, p, 'ok'])
                except FileNotFoundError as e:
                    if st != UNKNOWN:
                        bad('C05.rm', fs_kind(p), f'rm({p!r}) raised {e!r} but the file was saved', step)
                except OSError as e:
                    injected = e
            elif k == 'exists':
                got = pg.io.path_exists(p)
                if st != UNKNOWN and got != (st != ABSENT):
                    bad('C05.exists', fs_kind(p),
                        f'path_exists({p!r}) = {got} but model says {st[0]}', step)
            elif k == 'listdir':
                d = op['d']
                dd = d.rstrip('/')
                try:
                    names = set(pg.io.listdir(d))
                except (FileNotFoundError, NotADirectoryError):
                    names = None
                except OSError as e:
                    injected = e
                    names = None
                if names is not None:
                    for q, s in model.items():
                        if q.rsplit('/', 1)[0] == dd and s not in (ABSENT, UNKNOWN):
                            if q.rsplit('/', 1)[1] not in names:
                                bad('C05.listdir', fs_kind(q),
                                    f'listdir({d!r}) = {sorted(names)} misses saved file {q!r}', step)
                        if q.rsplit('/', 1)[0] == dd and s == ABSENT and \
                                q.rsplit('/', 1)[1] in names and q not in writers:
                            bad('C05.listdir', fs_kind(q),
                                f'listdir({d!r}) lists {q!r} which was removed / never saved', step)
            elif k == 'seq_open':
                if p in writers:
                    continue
                try:
                    raw = bool(op.get('raw'))
                    old = seq_model.get(p)
                    if op['mode'] == 'a' and old is not None:
                        raw = old['raw']        # keep one record format per file
                        if old['state'] == 'tail-unknown':
                            # appending after a torn tail: positions of later
                            # records are no longer known to the model
                            old['state'] = 'unknown'
                    if raw:
                        w = pg.io.open_sequence(p, op['mode'])
                    else:
                        w = pg.open_jsonl(p, op['mode'])
                    writers[p] = w
                    sm = seq_model.setdefault(
                        p, {'acked': [], 'pending': [], 'state': 'ok', 'raw': raw})
                    if op['mode'] == 'w':
                        sm['acked'], sm['pending'], sm['state'], sm['raw'] = [], [], 'ok', raw
                    log.append([k, p, op['mode']])
                except OSError as e:
                    injected = e
                    seq_model.setdefault(p, {'acked': [], 'pending': [], 'state': 'ok', 'raw': False})['state'] = 'unknown'
            elif k == 'seq_add':
                if p not in writers:
                    continue
                sm = seq_model[p]
                try:
                    if sm.get('raw'):
                        writers[p].add(op.get('s', 'r'))
                        sm['pending'].append(['rawstr', op.get('s', 'r')])
                    else:
                        writers[p].add(values.build(op['v']))
                        sm['pending'].append(op['v'])
                    if _is_memseq(p):
                        sm['acked'] += sm['pending']
                        sm['pending'] = []
                except OSError as e:
                    injected = e
                    sm['state'] = 'unknown'
            elif k == 'seq_flush':
                if p not in writers:
                    continue
                sm = seq_model[p]
                try:
                    writers[p].flush()
                    sm['acked'] += sm['pending']
                    sm['pending'] = []
                    probes['seq_flush'] = probes.get('seq_flush', 0) + 1
                except OSError as e:
                    injected = e
                    sm['state'] = 'unknown'
            elif k == 'seq_close':
                if p not in writers:
                    continue
                sm = seq_model[p]
                w = writers.pop(p)
                try:
                    w.close()
                    sm['acked'] += sm['pending']
                    sm['pending'] = []
                except OSError as e:
                    injected = e
                    sm['state'] = 'unknown'
            elif k == 'seq_read':
                sm = seq_model.get(p)
                if sm is None or sm['state'] == 'unknown':
                    relaxed[0] += bool(sm)
                    continue
                if p in writers:
                    # reading a sequence that this very process still has open
                    # for writing is not something the property speaks about
                    # (the in-memory file shares one position between handles)
                    continue
                try:
                    with pg.io.open_sequence(p, 'r') as r:
                        raw = list(iter(r))
                except FileNotFoundError:
                    if sm['acked'] or p in writers:
                        bad('C05.sequence', f'{fs_kind(p)}|missing',
                            f'sequence {p!r} cannot be opened although records were acknowledged', step)
                    continue
                except OSError as e:
                    injected = e
                    continue
                want = sm['acked']
                exact = sm['state'] == 'ok'
                if len(raw) < len(want) or (exact and len(raw) != len(want)):
                    bad('C05.sequence', f'{fs_kind(p)}|count',
                        f'sequence {p!r} has {len(raw)} records, {len(want)} were acknowledged'
                        f'{"" if exact else " (at least)"}', step)
                else:
                    for i, d in enumerate(want):
                        if d[0] == 'rawstr':
                            if raw[i] != d[1]:
                                bad('C05.sequence', f'{fs_kind(p)}|raw-record',
                                    f'raw record {i} of {p!r} reads back as {raw[i]!r}, '
                                    f'appended {d[1]!r}', step)
                                break
                            continue
                        try:
                            got = pg.from_json_str(raw[i], allow_partial=True)
                        except Exception as e:  # pylint: disable=broad-except
                            bad('C05.sequence', f'{fs_kind(p)}|undecodable',
                                f'acknowledged record {i} of {p!r} cannot be decoded: {e!r}', step)
                            break
                        why = _same(got, values.build(d))
                        if why:
                            bad('C05.sequence', f'{fs_kind(p)}|record',
                                f'record {i} of {p!r} differs from what was appended: {why}', step)
                            break
                    probes['seq_read_checked'] = probes.get('seq_read_checked', 0) + 1
                log.append([k, p, len(raw)])
            elif k == 'value_roundtrip':
                v = values.build(op['v'])
                how = op['how']
                if how == 'json':
                    got = pg.from_json(pg.to_json(v), allow_partial=True)
                elif how == 'json_str':
                    got = pg.from_json_str(pg.to_json_str(v), allow_partial=True)
                elif how == 'pickle':
                    got = pickle.loads(pickle.dumps(v))
                elif how == 'deepcopy':
                    got = copy.deepcopy(v)
                else:
                    got = copy.copy(v)
                why = _same(got, v)
                if why:
                    bad('C05.roundtrip', how, f'{how} round trip: {why}', step)
                log.append([k, how])
            elif k == 'crash':
                lost = disk.crash()
                any_fault[0] = True
                # buffers of open writers are gone; their un-flushed tail is undefined
                for q, w in list(writers.items()):
                    sm = seq_model[q]
                    if sm['pending'] and sm['state'] == 'ok':
                        sm['state'] = 'tail-unknown'
                        probes['crash_with_unflushed_records'] = \
                            probes.get('crash_with_unflushed_records', 0) + 1
                    sm['pending'] = []
                writers.clear()
                # the in-memory backends die with the process
                seams.restart_memory()
                for q in list(model):
                    if _is_mem_path(q):
                        model[q] = ABSENT
                for q in list(seq_model):
                    if _is_mem_path(q) or _is_memseq(q):
                        del seq_model[q]
                log.append(['crash', lost])
        except Exception as e:  # pylint: disable=broad-except
            if isinstance(e, OSError) and (disk.eio_at or disk.byte_budget is not None):
                injected = e
            else:
                bad('C05.unexpected-exception', f'{k}|{fs_kind(p) if p else "-"}|{type(e).__name__}',
                    f'{k} on {p!r} raised {type(e).__name__}: {e}', step)
        if injected is not None:
            any_fault[0] = True
            log.append([k, p, 'oserror', getattr(injected, 'errno', None)])
            # an OSError may only come out of an injected fault
            if not disk.fired:
                bad('C05.spurious-oserror', f'{k}|{fs_kind(p) if p else "-"}',
                    f'{k} on {p!r} raised {injected!r} but no fault was injected', step)
            if p in writers:
                try:
                    writers.pop(p).close()
                except Exception:  # pylint: disable=broad-except
                    pass
        states.append(small_hash([sorted((q, s[0]) for q, s in model.items()),
                                  sorted((q, len(m['acked']), m['state']) for q, m in seq_model.items())]))
    for q, w in list(writers.items()):
        try:
            w.close()
        except Exception:  # pylint: disable=broad-except
            pass
    for kf, n in disk.fired.items():
        faults[kf] = faults.get(kf, 0) + n
    saves = sum(1 for e in log if e[0] in ('save', 'write', 'save_txt', 'append') and e[-1] == 'ok')
    reads = sum(1 for e in log if e[0] in ('load', 'read', 'seq_read'))
    return {
        'violations': violations,
        'digest': digest([log, [v.sig for v in violations]]),
        'ntkey': digest([case['ops'], case['paths'], case['seqs']]),
        'nontrivial': saves >= 1 and reads >= 1,
        'faults': faults, 'probes': probes, 'steps': len(case['ops']),
        'sim_time': 0.0, 'states': states, 'interleaving': None,
        'relaxed': 1 if relaxed[0] else 0,
        'summary': {'ops': len(case['ops']), 'paths': paths, 'seqs': seqs,
                    'disk_calls': disk.calls, 'faults': dict(disk.fired)},
    }


# ---------------------------------------------------------------------------
# driver interface


def shrink_candidates(case):
    if case['faults'].get('eio_at') or case['faults'].get('byte_budget') is not None:
        c = dict(case)
        c['faults'] = dict(case['faults'], eio_at=[], byte_budget=None)
        yield 'no-faults', c
    if len(case['paths']) > 1:
        for i in range(len(case['paths'])):
            c = dict(case)
            c['paths'] = [case['paths'][i]]
            yield f'only-path-{i}', c


LIST_PARTS = [('ops',)]


def budget(tier):
    if tier == 'quick':
        return {'runs': 60000, 'wall': 70, 'chunk': 200, 'selftest': 8, 'minimise_s': 60,
                'canary_runs': 6000, 'canary_wall': 60}
    return {'runs': 400000, 'wall': 900, 'chunk': 100, 'selftest': 24, 'minimise_s': 180,
            'canary_runs': 6000, 'canary_wall': 60}


RULE = ('Each run: 2-8 paths on the simulated disk (StdFileSystem), the in-memory file system '
        'and record sequences; a seeded history of <= 18/30 save / overwrite / append / load / '
        'rm / listdir / sequence open-add-flush-close-read / value round-trip operations; half '
        'of the runs with injected EIO at seeded disk calls, ENOSPC budgets with short writes '
        'and process crashes. Non-trivial: >= 1 successful write and >= 1 read. Distinct: '
        'digest of (operation list, paths).')
DISTINCT_MEASURE = 'distinct_states = distinct (path -> kind of content, sequence lengths) model states'
COMPONENTS = {
    'real': ['pg.save / pg.load / Symbolic.save', 'pg.io.readfile/writefile/rm/listdir/mkdirs/path_exists',
             'StdFileSystem + StdFile (on the simulated disk)', 'MemoryFileSystem + MemoryFile',
             'LineSequence / open_jsonl / open_sequence', 'MemorySequence',
             'to_json/from_json(_str), pickle, copy.deepcopy of values'],
    'stub': ['io.open / os.* behind StdFileSystem (SimDisk: kernel state, per-handle user buffer, '
             'EIO, ENOSPC with short write, process crash)',
             'file-system and sequence registries are replaced by fresh ones per run (process restart)'],
}
ASSUMPTIONS = [
    'process crash, not power loss (pyglove never fsyncs)',
    'NaN payloads excluded (pg.eq(nan, nan) is False by IEEE)',
    'after an injected OSError a path is unknown until its next successful save; '
    'after a crash only records acknowledged by flush()/close() are demanded',
    'value space is covered only by the payloads the workload uses',
]


# ---------------------------------------------------------------------------
# canaries


def _canary(mod_name, owner_name, fn_name, old, new, count=1):
    def apply():
        import importlib
        import sys
        from sim.canary import patch_source
        mod = importlib.import_module(mod_name)
        owner = getattr(mod, owner_name) if owner_name else mod
        fn = patch_source(owner, fn_name, old, new, count)
        if owner_name is None:
            # re-exported aliases (pg.xxx, pg.io.xxx, pg.symbolic.xxx)
            for name, m in list(sys.modules.items()):
                if m is None or not name.startswith('pyglove'):
                    continue
                o = vars(m).get(fn_name)
                if o is not None and o is not fn and getattr(o, '__module__', None) == mod_name \
                        and getattr(o, '__name__', None) == fn_name:
                    setattr(m, fn_name, fn)
    return {'apply': apply}


CANARIES = {
    'memfile_close_no_rewind': _canary(
        'pyglove.core.io.file_system', 'MemoryFile', 'close', 'self.seek(0)', 'pass'),
    'writefile_default_append': _canary(
        'pyglove.core.io.file_system', None, 'writefile', "mode: str = 'w'", "mode: str = 'a'"),
    'lineseq_flush_noop': _canary(
        'pyglove.core.io.sequence', 'LineSequence', 'flush', 'self._file.flush()', 'pass'),
    'stdfile_flush_noop': _canary(
        'pyglove.core.io.file_system', 'StdFile', 'flush', 'self._file_object.flush()', 'pass'),
    'int_keys_not_decoded': _canary(
        'pyglove.core.symbolic.base', None, 'from_json_str',
        "if k.startswith('n_:'):", 'if False:'),
    'mem_prefix_lstrip': _canary(
        'pyglove.core.io.file_system', 'MemoryFileSystem', '_internal_path',
        "return '/' + path.lstrip('/')", "return '/' + resolve_path(path).lstrip(self._prefix)"),
    'mem_w_no_truncate': _canary(
        'pyglove.core.io.file_system', 'MemoryFileSystem', 'open',
        "if 'w' in mode or ('a' in mode and file is None):", "if 'w' in mode and file is None:"),
    'mem_append_at_head': _canary(
        'pyglove.core.io.file_system', 'MemoryFileSystem', 'open',
        'file.seek(0, 2)', 'pass'),
    'lineseq_strips_record': _canary(
        'pyglove.core.io.sequence', 'LineSequence', '_add',
        "self._file.write(record.rstrip('\\n'))", "self._file.write(record.strip())"),
    'memseq_w_keeps_records': _canary(
        'pyglove.core.io.sequence', 'MemorySequenceIO', 'open',
        "if 'w' in mode:", 'if False:'),
    'mem_rm_noop': _canary(
        'pyglove.core.io.file_system', 'MemoryFileSystem', 'rm',
        'del parent_dir[name]', 'pass'),
    'save_skips_mkdirs': _canary(
        'pyglove.core.symbolic.base', None, 'default_save_handler',
        'pg_io.mkdirs(os.path.dirname(path), exist_ok=True)', 'pass'),
}
