"""C14 / C12 — evolution operators along simulated search trajectories.

C14: every shipped mutator / recombinator / selector and random compositions
of them are applied to the evolving population at every generation of a
simulated search: children must be valid for the space and aligned with it,
selectors return members of their input in the documented number, inputs and
populations are never modified, seeded operators (and the whole seeded
algorithm) are independent of the process-global `random`.

C12: every DNA the library hands out during those searches (random
generation, sweeping, operators, clones, JSON round trips, recovery) must have
every node bound to the decision point of its own position: its views equal
those of a DNA rebuilt from its raw numbers, and every view reconstructs it.

Real code: pyglove.ext.evolution (Evolution, all operators, composition
algebra), pyglove.core.geno DNA / DNASpec.  Stubs: evaluation (pure function
of the DNA), the injected randomness (per-operator seeds vs. the re-seeded
process-global `random`).
"""
import random as _global_random

import pyglove as pg

from sim.core import Streams, Violation, digest, small_hash
from engines import searchlib

PROPS = ['C14', 'C12']
E = pg.evolution
S, M, R = E.selectors, E.mutators, E.recombinators

KEY_TYPES = ['id', 'name_or_id', 'dna_spec']
VALUE_TYPES = ['dna', 'value', 'choice', 'literal', 'choice_and_literal']
MULTI_KEYS = ['subchoice', 'parent', 'both']


def _w(inputs):
    out = []
    for x in inputs:
        f = E.get_fitness(x) if isinstance(x, pg.DNA) else None
        out.append(1.0 + (float(f) if isinstance(f, (int, float)) else 0.0))
    return out


# ---------------------------------------------------------------------------
# operator descriptors


def gen_leaf(rng, kinds=('sel', 'mut', 'rec'), allow_swap=True):
    k = rng.choice(kinds)
    seed = searchlib.gen_seed(rng)
    if k == 'sel':
        n = rng.choice([1, 2, 3, 0.5, 1.0, None, 0])
        name = rng.choice(['Random', 'Random', 'Sample', 'Proportional', 'Top', 'Bottom',
                           'First', 'Last'])
        d = {'op': name, 'n': n, 'seed': seed}
        if name == 'Random':
            d['replacement'] = rng.random() < 0.3
        if name in ('Top', 'Bottom'):
            d['cluster'] = rng.random() < 0.2
        return d
    if k == 'mut':
        return {'op': rng.choice(['m.Uniform', 'm.Uniform', 'm.Swap'] if allow_swap
                                 else ['m.Uniform']), 'seed': seed}
    name = rng.choice(['r.Uniform', 'r.Sample', 'r.Average', 'r.WeightedAverage', 'r.KPoint',
                       'r.Segmented', 'r.PartiallyMapped', 'r.Order', 'r.Cycle'])
    d = {'op': name, 'seed': seed}
    if name == 'r.KPoint':
        d['k'] = rng.randint(1, 3)
    return d


def gen_expr(rng, depth=0, want='dna'):
    """Random expression of the composition algebra.  want='sel': built only
    from selectors and set operators (output must be members of the input)."""
    if depth >= 2 or rng.random() < 0.35:
        return gen_leaf(rng, ('sel',) if want == 'sel' else ('sel', 'mut', 'mut'))
    c = rng.choice(['>>', '+', '|', '&', '-', '^', '*', '**', '[]', '~', 'with_prob',
                    'if_true', 'until_change'])
    if c == '>>':
        a = gen_expr(rng, depth + 1, 'sel')
        b = gen_expr(rng, depth + 1, want)
        return {'c': '>>', 'a': a, 'b': b}
    if c in ('+', '|', '&', '-', '^'):
        return {'c': c, 'a': gen_expr(rng, depth + 1, want), 'b': gen_expr(rng, depth + 1, want)}
    if c == '*':
        return {'c': '*', 'a': gen_expr(rng, depth + 1, want), 'k': rng.randint(1, 3)}
    if c == '**':
        if want == 'sel':
            return gen_leaf(rng, ('sel',))
        return {'c': '**', 'a': gen_leaf(rng, ('mut',)), 'k': rng.randint(1, 3)}
    if c == '[]':
        return {'c': '[]', 'a': gen_expr(rng, depth + 1, want),
                's': [rng.choice([None, 0, 1]), rng.choice([None, 1, 2, -1]), None]}
    if c == '~':
        return {'c': '~', 'a': gen_expr(rng, depth + 1, 'sel')}
    if c == 'with_prob':
        return {'c': 'with_prob', 'a': gen_expr(rng, depth + 1, want),
                'p': rng.choice([0.0, 0.5, 1.0]), 'seed': searchlib.gen_seed(rng)}
    if c == 'if_true':
        return {'c': 'if_true', 'a': gen_expr(rng, depth + 1, want), 'min_len': rng.randint(0, 3)}
    return {'c': 'until_change', 'a': gen_expr(rng, depth + 1, want), 'max': rng.randint(1, 3)}


def build(d):
    if 'c' in d:
        c = d['c']
        if c == '>>':
            return build(d['a']) >> build(d['b'])
        if c == '+':
            return build(d['a']) + build(d['b'])
        if c == '|':
            return build(d['a']) | build(d['b'])
        if c == '&':
            return build(d['a']) & build(d['b'])
        if c == '-':
            return build(d['a']) - build(d['b'])
        if c == '^':
            return build(d['a']) ^ build(d['b'])
        if c == '*':
            return build(d['a']) * d['k']
        if c == '**':
            return build(d['a']) ** d['k']
        if c == '[]':
            return build(d['a'])[slice(*d['s'])]
        if c == '~':
            return ~build(d['a'])
        if c == 'with_prob':
            return build(d['a']).with_prob(d['p'], seed=d['seed'])
        if c == 'if_true':
            n = d['min_len']
            return build(d['a']).if_true(lambda x, n=n: len(x) >= n)
        if c == 'until_change':
            return build(d['a']).until_change(d['max'])
        raise ValueError(c)
    op, seed = d['op'], d.get('seed')
    if op == 'Random':
        return S.Random(d['n'], replacement=d.get('replacement', False), seed=seed)
    if op == 'Sample':
        return S.Sample(d['n'], _w, seed=seed)
    if op == 'Proportional':
        return S.Proportional(d['n'], _w)
    if op == 'Top':
        return S.Top(d['n'], cluster=d.get('cluster', False))
    if op == 'Bottom':
        return S.Bottom(d['n'], cluster=d.get('cluster', False))
    if op == 'First':
        return S.First(d['n'])
    if op == 'Last':
        return S.Last(d['n'])
    if op == 'm.Uniform':
        return M.Uniform(seed=seed)
    if op == 'm.Swap':
        return M.Swap(seed=seed)
    if op == 'r.Uniform':
        return R.Uniform(seed=seed)
    if op == 'r.Sample':
        return R.Sample(_w, seed=seed)
    if op == 'r.Average':
        return R.Average()
    if op == 'r.WeightedAverage':
        return R.WeightedAverage(_w)
    if op == 'r.KPoint':
        return R.KPoint(d['k'], seed=seed)
    if op == 'r.Segmented':
        return R.Segmented(lambda parents: [1])
    if op == 'r.PartiallyMapped':
        return R.PartiallyMapped(seed=seed)
    if op == 'r.Order':
        return R.Order(seed=seed)
    if op == 'r.Cycle':
        return R.Cycle(seed=seed)
    raise ValueError(op)


def is_pure_selector(d):
    if 'c' in d:
        if d['c'] in ('**',):
            return False
        return is_pure_selector(d['a']) and ('b' not in d or is_pure_selector(d['b']))
    return not d['op'].startswith(('m.', 'r.'))


def kind_of(d):
    if 'c' in d:
        return d['c']
    return d['op']


# ---------------------------------------------------------------------------
# case generation


def gen_case(streams: Streams, tier: str, prop='C14') -> dict:
    cfg = streams.get('config')
    space = searchlib.gen_space(cfg, max_points=3, bias=cfg.random() < 0.6)
    ops = streams.get('ops')
    n_ops = ops.randint(3, 7)
    tested = []
    for _ in range(n_ops):
        r = ops.random()
        if r < 0.5:
            tested.append(gen_leaf(ops))
        elif r < 0.75:
            tested.append(gen_expr(ops, want='sel'))
        else:
            tested.append(gen_expr(ops, want='dna'))
    pop = cfg.randint(2, 5)
    repro = {'c': '>>', 'a': gen_expr(ops, 1, 'sel'),
             'b': gen_leaf(ops, ('mut',), allow_swap=True)}
    if ops.random() < 0.3:
        repro = {'c': '>>', 'a': {'op': 'Random', 'n': 2, 'seed': ops.randint(0, 999)},
                 'b': {'c': '>>', 'a': gen_leaf(ops, ('rec',)), 'b': gen_leaf(ops, ('mut',))}}
    v = streams.get('views')
    views = [[v.choice(KEY_TYPES), v.choice(VALUE_TYPES), v.choice(MULTI_KEYS)] for _ in range(3)]
    mx = streams.get('matrix')
    names = ['m.Uniform', 'm.Swap', 'r.Uniform', 'r.Sample', 'r.Average', 'r.WeightedAverage',
             'r.KPoint', 'r.Segmented', 'r.PartiallyMapped', 'r.Order', 'r.Cycle']
    matrix = [[n, searchlib.gen_seed(mx)] for n in mx.sample(names, 5)]
    return {'prop': prop, 'space': space, 'pop': pop, 'matrix': matrix,
            'located': mx.random() < 0.7,     # decision points with locations: unique ids
            'matrix_m': mx.randint(2, 5),
            'gens': cfg.randint(3, 8 if tier == 'quick' else 30),
            'seed': cfg.randint(0, 10 ** 6), 'tested': tested, 'repro': repro, 'views': views,
            'algo_kind': cfg.choice(['evolution', 'evolution', 'regevo', 'hill_climb', 'sweeping',
                                     'random']),
            'noise_a': streams.sub('noise_a') % (2 ** 31),
            'noise_b': streams.sub('noise_b') % (2 ** 31)}


# ---------------------------------------------------------------------------
# oracles


def _valid(spec, dna):
    try:
        r = spec.validate(dna)
    except (ValueError, TypeError, KeyError, IndexError) as e:
        return f'{type(e).__name__}: {str(e)[:160]}'
    if r is False:
        return 'validate() returned False'
    return None


def _node_sig(n):
    s = n.spec
    if s is None:
        return None
    try:
        return (type(s).__name__, str(s.id))
    except Exception:  # pylint: disable=broad-except
        return (type(s).__name__, '?')


_NAMES_BY_ID = {}


def _names_by_id(spec):
    """id path -> name of every decision point of a spec (cached per spec object)."""
    ent = _NAMES_BY_ID.get(id(spec))
    if ent is None or ent[0] is not spec:
        if len(_NAMES_BY_ID) > 64:
            _NAMES_BY_ID.clear()
        ent = (spec, {dp.id.path: dp.name for dp in spec.decision_points})
        _NAMES_BY_ID[id(spec)] = ent
    return ent[1]


def alignment_errors(d, spec, views, full=True):
    """C12 on one DNA: node/spec alignment against a DNA rebuilt from numbers,
    and losslessness of the sampled views."""
    errs = []
    try:
        numbers = d.to_numbers()
        rebuilt = pg.DNA.from_numbers(list(numbers) if isinstance(numbers, list) else [numbers], spec)
    except Exception as e:  # pylint: disable=broad-except
        return [('rebuild', f'from_numbers(to_numbers()) raised {type(e).__name__}: {str(e)[:160]}')]
    if d.spec is None:
        errs.append(('unbound', 'DNA handed out without a bound spec'))
        return errs
    if rebuilt != d:
        errs.append(('numbers', f'DNA rebuilt from its numbers {numbers} differs: {rebuilt!r:.120} vs {d!r:.120}'))
        return errs
    stack = [(d, rebuilt, '$')]
    while stack:
        a, b, path = stack.pop()
        if _node_sig(a) != _node_sig(b):
            errs.append(('node-spec', f'node {path} (value {a.value!r}) is bound to decision point '
                         f'{_node_sig(a)} but its position belongs to {_node_sig(b)}'))
            return errs
        if len(a.children) != len(b.children):
            errs.append(('shape', f'node {path} has {len(a.children)} children, rebuilt {len(b.children)}'))
            return errs
        for i, (x, y) in enumerate(zip(a.children, b.children)):
            stack.append((x, y, f'{path}[{i}]'))
    if not full:
        return errs
    # nested numbers: the hierarchical view parsed back and bound to the spec
    try:
        nested = d.to_numbers(flatten=False)
        back = pg.DNA.parse(nested)
        back.use_spec(spec)
    except Exception as e:  # pylint: disable=broad-except
        back = e
    if isinstance(back, Exception) or back != d or back.to_numbers() != numbers:
        errs.append(('nested-numbers', f'DNA.parse(to_numbers(flatten=False)) = {nested!r:.120} gives '
                     f'{back!r:.160}, original {d!r:.160}'))
        return errs
    for kt, vt, mk in views:
        try:
            want = rebuilt.to_dict(key_type=kt, value_type=vt, multi_choice_key=mk)
        except Exception:  # pylint: disable=broad-except
            continue            # this view is not defined for this space (e.g. no literals)
        try:
            got = d.to_dict(key_type=kt, value_type=vt, multi_choice_key=mk)
        except Exception as e:  # pylint: disable=broad-except
            errs.append(('view-raises', f'to_dict({kt},{vt},{mk}) raised {type(e).__name__}: {e}'))
            return errs
        norm = lambda m: sorted(((id(k) if isinstance(k, pg.DNASpec) else str(k)), repr(v))
                                for k, v in m.items())
        if norm(got) != norm(want):
            errs.append(('view', f'to_dict({kt},{vt},{mk}) = {got!r:.200} but the DNA rebuilt from '
                         f'its numbers gives {want!r:.200}'))
            return errs
        # reconstruction through this view: demanded of `d` whenever it works for
        # the DNA rebuilt from the numbers (whether a view is reconstructible at
        # all for a given space is a pure function of (spec, DNA, options))
        try:
            ref_back = pg.DNA.from_dict(want, spec)
            ref_ok = ref_back == rebuilt
        except Exception:  # pylint: disable=broad-except
            ref_ok = False
        if ref_ok:
            try:
                back = pg.DNA.from_dict(got, spec)
            except Exception as e:  # pylint: disable=broad-except
                back = e
            if isinstance(back, Exception) or back != d:
                errs.append(('view-not-lossless', f'from_dict(to_dict({kt},{vt},{mk})) gives '
                             f'{back!r:.160}, original {d!r:.160}'))
                return errs
    # the same decisions under two key styles: ids are unique per
    # node, names may repeat (a named point inside a candidate that several
    # sub-choices pick); the name-keyed view must be the decision-point-keyed one
    # regrouped by name, values accumulated in traversal order
    for vt in ('value',):
        try:
            by_id = d.to_dict(key_type='id', value_type=vt, multi_choice_key='subchoice')
            by_name = d.to_dict(key_type='name_or_id', value_type=vt, multi_choice_key='subchoice')
            names = _names_by_id(spec)
        except Exception:  # pylint: disable=broad-except
            break
        if any(k not in names for k in by_id) or \
                len(names) != len(spec.decision_points):
            break           # a space built without locations: ids are not unique
        want, multi = {}, set()
        for idp, val in by_id.items():
            key = names[idp] if names[idp] else idp
            if key in want:
                if key not in multi:
                    want[key] = [want[key]]
                    multi.add(key)
                want[key].append(val)
            else:
                want[key] = val
        canon = lambda x: [canon(y) for y in x] if isinstance(x, list) else (
            x.to_numbers() if isinstance(x, pg.DNA) else x)
        got = {str(k): canon(v) for k, v in by_name.items()}
        exp = {str(k): canon(v) for k, v in want.items()}
        if got != exp:
            errs.append(('view-by-name', f"to_dict(key_type='name_or_id', value_type={vt!r}) = "
                         f'{got!r:.200} but regrouping the id-keyed view by name gives '
                         f'{exp!r:.200}'))
            return errs
    for compact in (True, False):
        try:
            j = d.to_json(compact=compact)
            back = pg.from_json(j)
            if isinstance(back, pg.DNA):
                back.use_spec(spec)
        except Exception as e:  # pylint: disable=broad-except
            back = e
        if isinstance(back, Exception) or back != d:
            errs.append(('json', f'JSON (compact={compact}) round trip gives {back!r:.160}'))
            return errs
    for dp in spec.decision_points[:6]:
        try:
            a, b = d[dp], rebuilt[dp]
        except Exception as e:  # pylint: disable=broad-except
            errs.append(('lookup-raises', f'lookup by decision point {dp.id} raised {e!r:.100}'))
            return errs
        val = lambda x: None if x is None else ([val(y) for y in x] if isinstance(x, list) else x.value)
        if val(a) != val(b):
            errs.append(('lookup', f'lookup of {dp.id} gives {val(a)} but the decision made there '
                         f'is {val(b)}'))
            return errs
        if dp.name is not None:
            try:
                c, c2 = d[dp.name], rebuilt[dp.name]
                if val(c) != val(c2):
                    errs.append(('lookup', f'lookup by name {dp.name!r} gives {val(c)}, the '
                                 f'decision(s) made there: {val(c2)}'))
                    return errs
            except KeyError:
                pass
    return errs


def _snap(xs):
    return [(id(x), x.to_json_str() if isinstance(x, pg.DNA) else repr(x)) for x in xs]


# ---------------------------------------------------------------------------
# running


def _make_algo(case, spec):
    kind = case.get('algo_kind', 'evolution')
    seed = case['seed']
    if kind == 'evolution':
        return E.Evolution(build(case['repro']),
                           population_init=(pg.geno.Random(seed=seed), case['pop']),
                           population_update=S.Last(case['pop'] + 1))
    if kind == 'regevo':
        return E.regularized_evolution(mutator=M.Uniform(seed=seed), population_size=max(2, case['pop']),
                                       tournament_size=2, seed=seed)
    if kind == 'hill_climb':
        return E.hill_climb(mutator=M.Uniform(seed=seed), batch_size=2, init_population_size=2,
                            seed=seed)
    if kind == 'sweeping':
        return pg.geno.Sweeping()
    return pg.geno.Random(seed=seed)


def run_case(case: dict, prop=None):
    prop = prop or case.get('prop', 'C14')
    V = []
    faults, probes, states, log = {}, {}, [], []
    spec = searchlib.build_root_space(case['space'], located=bool(case.get('located')))
    has_float = searchlib.space_has_float(case['space'])
    if case.get('algo_kind') == 'sweeping' and has_float:
        case = dict(case, algo_kind='random')

    def bad(oracle, detail, msg, step):
        V.append(Violation(prop, oracle, f'{oracle}|{detail}', f'[gen {step}] {msg}', step=step))

    def check_dna(d, where, step):
        if V:
            return
        e = _valid(spec, d)
        if e and prop == 'C14':
            bad('C14.invalid-child', where, f'{where} produced {d!r:.160} which the space rejects: {e}', step)
            return
        for code, msg in alignment_errors(d, spec, case['views'], full=(prop == 'C12'))[:1]:
            bad(f'{prop}.align-{code}' if prop == 'C12' else f'C14.misaligned-{code}', where,
                f'{where} produced {d!r:.120}: {msg}', step)
            return

    # twin instances: same seeds, different process-global random streams
    _global_random.seed(case['noise_a'])
    A = _make_algo(case, spec)
    A.setup(spec)
    _global_random.seed(case['noise_b'])
    B = _make_algo(case, spec)
    B.setup(spec)
    tested = []
    for d in case['tested']:
        try:
            tested.append((d, build(d), build(d)))
        except Exception as e:  # pylint: disable=broad-except
            probes['unbuildable_expr'] = probes.get('unbuildable_expr', 0) + 1
    n_applied = 0
    extra_parents = None
    try:
        extra_parents = pg.geno.Random(seed=case['seed'] + 1)
        extra_parents.setup(spec)
    except Exception:  # pylint: disable=broad-except
        extra_parents = None

    def apply_op(desc, op1, op2, inputs, pop, g):
        nonlocal n_applied
        before = _snap(inputs)
        pop_before = _snap(pop)
        gs = pg.geno.AttributeDict()
        _global_random.seed(case['noise_a'] + 13 * g)
        try:
            out1 = op1(inputs, global_state=gs, step=g)
            err1 = None
        except Exception as e:  # pylint: disable=broad-except
            out1, err1 = None, e
        n_applied += 1
        where = kind_of(desc)
        if _snap(inputs) != before or _snap(pop) != pop_before:
            bad('C14.input-modified', where,
                f'{where} {desc} modified the DNAs / list passed in', g)
            return False
        if err1 is not None and _must_not_raise(desc, err1):
            bad('C14.operator-raises', f'{where}|{type(err1).__name__}',
                f'{where} {desc} raised {type(err1).__name__}: {str(err1)[:200]} on valid '
                f'parents {[x.to_numbers() for x in inputs[:4]]}', g)
            return False
        # determinism of seeded operators w.r.t. the global random stream: the
        # twin sees every call the first instance sees (also the failing ones,
        # which consume seeded randomness too)
        _global_random.seed(case['noise_b'] + 17 * g + 3)
        try:
            out2 = op2(list(inputs), global_state=pg.geno.AttributeDict(), step=g)
        except Exception as e:  # pylint: disable=broad-except
            out2 = e
        if err1 is not None:
            probes['operator_inapplicable'] = probes.get('operator_inapplicable', 0) + 1
            faults['operator_raised_inputs_rechecked'] = \
                faults.get('operator_raised_inputs_rechecked', 0) + 1
            return True
        if _uses_only_seeds(desc):
            n1 = [x.to_numbers() if isinstance(x, pg.DNA) else repr(x) for x in out1]
            n2 = out2 if isinstance(out2, Exception) else \
                [x.to_numbers() if isinstance(x, pg.DNA) else repr(x) for x in out2]
            if n1 != n2:
                bad('C14.seed-nondeterministic', where,
                    f'{where} {desc}: two instances with the same seeds and inputs give '
                    f'{n1} and {n2!r:.200} under different global random states', g)
                return False
        if not isinstance(out1, list):
            bad('C14.output-type', where, f'{where} returned {type(out1).__name__}', g)
            return False
        if is_pure_selector(desc):
            ids = {id(x) for x in inputs}
            if any(id(x) not in ids for x in out1):
                bad('C14.selector-not-member', where,
                    f'{where} {desc} returned an object that is not a member of its input', g)
                return False
            if 'op' in desc and desc['op'] in ('Top', 'Bottom', 'First', 'Last', 'Random',
                                               'Sample', 'Proportional'):
                want = S.compute_num_output(desc['n'], len(inputs), g)
                if desc['op'] in ('Top', 'Bottom') and desc.get('cluster'):
                    want = None
                elif desc['op'] in ('Top', 'Bottom', 'First', 'Last') or \
                        (desc['op'] == 'Random' and not desc.get('replacement')):
                    want = min(want, len(inputs))
                if want is not None and len(out1) != want:
                    bad('C14.selector-count', desc['op'],
                        f'{desc} on {len(inputs)} inputs returned {len(out1)} items, '
                        f'documented number is {want}', g)
                    return False
                if desc['op'] == 'Random' and not desc.get('replacement') and \
                        len({id(x) for x in out1}) != len(out1):
                    bad('C14.selector-count', 'Random-duplicates',
                        f'{desc} without replacement returned one member twice', g)
                    return False
        for x in out1[:(1 if prop == 'C12' else 4)]:
            if isinstance(x, pg.DNA):
                check_dna(x, where, g)
        return True

    for g in range(case['gens']):
        if V:
            break
        _global_random.seed(case['noise_a'] + g)
        try:
            da = A.propose()
        except StopIteration:
            da = None
        except Exception as e:  # pylint: disable=broad-except
            probes['algo_raises'] = probes.get('algo_raises', 0) + 1
            break
        _global_random.seed(case['noise_b'] + 7 * g + 1)
        try:
            db = B.propose()
        except StopIteration:
            db = None
        except Exception as e:  # pylint: disable=broad-except
            bad('C14.twin-divergence', 'raises',
                f'the twin instance raised {type(e).__name__}: {e} where the first did not', g)
            break
        if (da is None) != (db is None) or (da is not None and da.to_numbers() != db.to_numbers()):
            bad('C14.twin-divergence', case.get('algo_kind', 'evolution'),
                f'two instances built from the same seeds propose '
                f'{da.to_numbers() if da is not None else None} and '
                f'{db.to_numbers() if db is not None else None} when the process-global random '
                f'is seeded differently (reproduction={case["repro"] if case.get("algo_kind") == "evolution" else case.get("algo_kind")})', g)
            break
        if da is None:
            break
        log.append(['propose', da.to_numbers()])
        faults['global_random_reseeded_between_twins'] = \
            faults.get('global_random_reseeded_between_twins', 0) + 1
        check_dna(da, f'propose[{case.get("algo_kind")}:{kind_of(case["repro"]["b"]) if case.get("algo_kind") == "evolution" else "-"}]', g)
        if V:
            break
        # clones and JSON copies are DNAs handed out by the library too
        if prop == 'C12':
            for how, c in (('clone', da.clone(deep=True)),):
                check_dna(c, how, g)
        r = searchlib.reward_of(da, g + 1)
        A.feedback(da, r)
        B.feedback(db, r)
        pop = list(getattr(A, 'population', []) or [])
        states.append(small_hash([[d.to_numbers() for d in pop]]))
        if not pop:
            continue
        # ---- apply every tested operator / expression to the live population
        for desc, op1, op2 in tested:
            if V:
                break
            inputs = list(pop)
            if 'op' in desc and desc['op'].startswith('r.') and len(pop) > 3 and (g + desc.get('seed', 0)) % 2:
                k3 = 3 + (g % 2)
                start = (g * 7 + desc.get('seed', 0)) % len(pop)
                inputs = [pop[(start + j) % len(pop)] for j in range(min(k3, len(pop)))]
            np_ = getattr(op1, 'NUM_PARENTS', None)
            if np_ is not None:
                if len(inputs) < np_:
                    continue
                inputs = inputs[:np_]
            if not apply_op(desc, op1, op2, inputs, pop, g):
                break
            # recombinators and mutators are also applied to parents that no
            # selection has filtered: arbitrary valid DNAs of the specification
            if 'op' in desc and desc['op'][:2] in ('r.', 'm.') and extra_parents is not None:
                for j in range(2):
                    k = 1 if desc['op'].startswith('m.') else 2 + (g + j) % 3
                    np_ = getattr(op1, 'NUM_PARENTS', None)
                    if np_ is not None:
                        k = np_
                    try:
                        ps = [extra_parents.propose() for _ in range(k)]
                        for d in ps:
                            pg.evolution.set_fitness(d, searchlib.reward_of(d, g + j + 1))
                    except Exception:  # pylint: disable=broad-except
                        break
                    probes['random_parents'] = probes.get('random_parents', 0) + 1
                    if not apply_op(desc, op1, op2, ps, ps, g):
                        break
    # ---- operator matrix: a seeded sample of the shipped mutator / recombinator
    # classes, each applied to arbitrary valid parents of the specification
    # (2..4 of them, some on other branches of a conditional space)
    if not V and extra_parents is not None and case.get('matrix'):
        g = case['gens']
        for name, mseed in case['matrix']:
            desc = {'op': name, 'seed': mseed}
            if name == 'r.KPoint':
                desc['k'] = 1 + mseed % 3
            try:
                op1, op2 = build(desc), build(desc)
            except Exception:  # pylint: disable=broad-except
                continue
            for j in range(case.get('matrix_m', 3)):
                k = 1 if name.startswith('m.') else 2 + (mseed + j) % 3
                np_ = getattr(op1, 'NUM_PARENTS', None)
                if np_ is not None:
                    k = np_
                try:
                    ps = [extra_parents.propose() for _ in range(k)]
                    for d in ps:
                        pg.evolution.set_fitness(d, searchlib.reward_of(d, g + j + 1))
                except Exception:  # pylint: disable=broad-except
                    break
                probes['matrix_applications'] = probes.get('matrix_applications', 0) + 1
                if not apply_op(desc, op1, op2, ps, ps, g + j):
                    break
            if V:
                break
    return {
        'violations': V,
        'digest': digest([log, [v.sig for v in V]]),
        'ntkey': digest([case['space'], case['repro'], case['tested'], case['seed']]),
        'nontrivial': len(log) >= 3 and n_applied >= 2,
        'faults': faults, 'probes': probes, 'steps': len(log) + n_applied, 'sim_time': 0.0,
        'states': states, 'interleaving': None,
        'summary': {'algo': case.get('algo_kind'), 'gens': len(log), 'operators_applied': n_applied},
    }


# operators that are defined on every space shape: an exception on valid parents is
# not "inapplicable" (segment-wise and permutation recombinators do reject some shapes)
_TOTAL_OPS = ('m.Swap', 'r.Uniform', 'r.Sample', 'r.Average', 'r.WeightedAverage',
              'Random', 'Sample', 'Proportional', 'Top', 'Bottom', 'First', 'Last')


def _must_not_raise(d, err):
    if 'c' in d:
        return False
    if d['op'] == 'm.Uniform':
        return not (isinstance(err, RuntimeError) and 'Immutable DNA' in str(err))
    if d['op'] in ('Sample', 'Proportional') and isinstance(err, (ValueError, ZeroDivisionError,
                                                                 IndexError)):
        return False        # empty input / zero output count
    if d['op'] == 'Random' and isinstance(err, (ValueError, IndexError)):
        return False
    if d['op'] in ('r.KPoint', 'r.Segmented'):
        # segment-wise crossover is partial today: on conditional / nested spaces it
        # fails in these three ways on the unchanged tree (observed, see DESIGN 12.4).
        # Any other failure on valid parents - e.g. children that violate a
        # constraint of the space - is a violation.
        msg = str(err)
        known = (isinstance(err, ValueError) and 'should be either an integer, a float' in msg) \
            or (isinstance(err, TypeError) and "'<' not supported between instances" in msg) \
            or isinstance(err, AssertionError)
        return not known
    return d['op'] in _TOTAL_OPS


def _uses_only_seeds(d):
    """True when every random leaf of the expression takes a seed."""
    if 'c' in d:
        ok = _uses_only_seeds(d['a']) and ('b' not in d or _uses_only_seeds(d['b']))
        return ok
    return d['op'] not in ('Proportional',)


# ---------------------------------------------------------------------------
# driver interface


def shrink_candidates(case):
    if case['gens'] > 2:
        c = dict(case)
        c['gens'] = max(2, case['gens'] // 2)
        yield 'fewer-generations', c
    if case.get('algo_kind') != 'random':
        c = dict(case)
        c['algo_kind'] = 'random'
        yield 'random-driver', c


LIST_PARTS = [('tested',), ('views',), ('matrix',)]


def budget(tier, prop=None):
    if tier == 'quick':
        return {'runs': 400 if prop == 'C12' else 800, 'wall': 75, 'chunk': 4,
                'selftest': 3 if prop == 'C12' else 6, 'minimise_s': 60,
                'canary_runs': 600, 'canary_wall': 90}
    return {'runs': 30000, 'wall': 900, 'chunk': 16, 'selftest': 16, 'minimise_s': 180,
            'canary_runs': 600, 'canary_wall': 90}


RULE = ('Each run: a seeded DNASpec, a search algorithm (hand-composed Evolution with a random '
        'reproduction expression, regularized evolution, hill climb, sweeping, random) stepped '
        'for 4-10/30 generations as twin instances under different process-global random '
        'streams, and 3-7 operators / random expressions of the composition algebra applied '
        'to the live population at every generation. Non-trivial: >= 3 proposals and >= 2 '
        'operator applications. Distinct: digest of (space, reproduction expression, tested '
        'operators, seed).')
DISTINCT_MEASURE = 'distinct_states = distinct populations (as number lists) reached'
COMPONENTS = {
    'real': ['pyglove.ext.evolution: Evolution, selectors, mutators, recombinators, composition '
             'algebra', 'pg.DNA / pg.DNASpec views (to_numbers, from_numbers, to_dict, from_dict, '
             'JSON, lookups)', 'geno.Random / Sweeping'],
    'stub': ['evaluation (reward = pure function of DNA numbers)',
             'randomness: per-operator seeds, the process-global `random` is re-seeded '
             'differently for the twin'],
}
ASSUMPTIONS = [
    'operators that raise on a population (unsupported space shape, not enough parents) are '
    'counted as inapplicable; only non-corruption of their inputs is still demanded',
    'C12: losslessness of views is decided only on the DNAs the simulated searches reach',
]


# ---------------------------------------------------------------------------
# canaries


def _canary(mod_name, owner_name, fn_name, old, new, count=1):
    def apply():
        import importlib
        from sim.canary import patch_source
        mod = importlib.import_module(mod_name)
        owner = getattr(mod, owner_name) if owner_name else mod
        patch_source(owner, fn_name, old, new, count)
    return {'apply': apply}


_MU = 'pyglove.ext.evolution.mutators'
_SE = 'pyglove.ext.evolution.selectors'
_RE = 'pyglove.ext.evolution.recombinators'
_GB = 'pyglove.core.geno.base'

CANARIES = {
    'C14.uniform_mutates_argument': _canary(
        _MU, 'Uniform', 'mutate', 'dna = dna.clone(deep=True)  # Prevent overwriting argument.',
        'pass'),
    'C14.top_returns_copies': _canary(
        _SE, 'Top', 'select', 'return sorted(inputs, key=key, reverse=True)[:n]',
        'return [x.clone(deep=True) for x in sorted(inputs, key=key, reverse=True)[:n]]'),
    'C14.recombinator_uses_global_random': _canary(
        _RE, 'Uniform', 'merge',
        'return self._random.choice(', 'return random.choice('),
    'C14.uniform_ignores_distinct': _canary(
        _MU, 'Uniform', 'mutate',
        '- set([c.value for c in parent_node.children]))', ')'),
    'C14.swap_no_realign': _canary(
        _MU, 'Swap', 'mutate',
        'parent_node.children[i].use_spec(parent_node.spec.subchoice(i))', 'pass'),
    'C14.uniform_no_realign_after_sort': _canary(
        _MU, 'Uniform', 'mutate', 'child.use_spec(parent_spec.subchoice(i))', 'pass'),
    'C14.random_selector_with_replacement': _canary(
        _SE, 'Random', 'select', 'return self._random.sample(inputs, n)',
        'return [self._random.choice(inputs) for _ in range(n)]'),
    'C14.first_off_by_one': _canary(
        _SE, 'First', 'select', 'return inputs[:compute_num_output(self.n, len(inputs), step)]',
        'return inputs[:compute_num_output(self.n, len(inputs), step) + 1]'),
    'C14.mutator_seed_ignored': _canary(
        _MU, 'Uniform', '_on_bound', 'if self.seed is None:', 'if True:'),
    'C14.permutation_where_unseeded': _canary(
        _RE, 'Permutation', '_on_bound', 'notify_parents=False', 'skip_notification=True'),
    'C14.merge_fallback_ignores_inactive': _canary(
        _RE, None, '_merge_multi_choice',
        'return rand.choices(parent_decisions, weights=adjusted_weights, k=1)[0]',
        'return rand.choices(parent_decisions, weights=weights, k=1)[0]'),
    'C12.swap_no_realign': _canary(
        _MU, 'Swap', 'mutate',
        'parent_node.children[i].use_spec(parent_node.spec.subchoice(i))', 'pass'),
    'C12.clone_drops_spec': _canary(
        _GB, 'DNA', '_sym_clone', 'other._spec = self._spec      # pylint: disable=protected-access',
        'pass'),
    'C12.use_spec_subchoice_shifted': _canary(
        _GB, 'DNA', 'use_spec', 'subchoice = spec.subchoice(i)',
        'subchoice = spec.subchoice((i + 1) % spec.num_choices)'),
}
