"""C17 — scoped settings restore exactly and never leak across threads.

A program is a per-thread list of events over all scoped-setting context
managers of the library: enter(manager, args) / exit / raise-through-d-scopes /
probe / propagate.  1..4 real threads run their programs under the seeded
scheduler (pre-emption at every line of the scope-implementing modules).  A
per-thread reference stack predicts every observation before and after every
event; after the last exit every observation must equal the one taken before
the first enter.

Events are robust to deletion (exit at depth 0 is a no-op, raise unwinds at
most what is open, everything still open is closed at the end), so any
sub-sequence of a program is a program — which is what makes ddmin work.
"""
import contextlib
import json
import os
import random as _global_random
import sys

import pyglove as pg
from pyglove.core.symbolic import flags as pg_flags

from sim import sched
from sim.core import Streams, Violation, digest, small_hash

PROPS = ['C17']


class Unwind(Exception):
    pass


# ---------------------------------------------------------------------------
# probe classes (module level: registered once)


class _P(pg.Object):
    x: int


class Echo(pg.Formattable):
    """Echoes the format kwargs it is rendered with."""

    def format(self, compact=False, verbose=True, root_indent=0, **kwargs):
        d = dict(kwargs, compact=compact, verbose=verbose)
        d = {k: v for k, v in d.items()
             if k in ('compact', 'verbose', 'hide_default_values', 'custom_k')}
        return json.dumps(d, sort_keys=True, default=repr)


class _U1(pg.Object):
    auto_register = False
    a: int = 1


class _U2(pg.Object):
    auto_register = False
    b: int = 2


class _W1:
    def __init__(self):
        pass


class _W2:
    def __init__(self):
        pass


_W1Wrapper = pg.wrap(_W1)
_W2Wrapper = pg.wrap(_W2)
_WRAPPERS = {'W1': _W1Wrapper, 'W2': _W2Wrapper}
_WRAPPED = {'W1': _W1, 'W2': _W2}
_UNREG = {'U1': _U1, 'U2': _U2}

# pg.detour patches a class's __new__ once per process; do it at import so
# that no run of a worker process is the "first use" of these two classes
# (runs must not depend on what ran before them in the same process)
with pg.apply_wrappers([_W1Wrapper, _W2Wrapper]):
    pass

# the hyper primitive every observation creates, and two DynamicEvaluationContexts
# (per-thread and process-wide) that have collected it: their apply() is one more
# scoped manager (it replays a decision for the primitives created inside)
_PROBE_CANDIDATES = [110, 120, 130]


def _probe_hyper():
    return pg.oneof(list(_PROBE_CANDIDATES), name='c17_probe')


_APPLY_CTX_POOL = {True: [], False: []}     # a context object serves one apply() at a time


def _take_apply_ctx(per_thread):
    pool = _APPLY_CTX_POOL[per_thread]
    if pool:
        return pool.pop()
    ctx = pg.hyper.DynamicEvaluationContext(require_hyper_name=True, per_thread=per_thread)
    with ctx.collect():
        _probe_hyper()
    # warm-up: whatever a context computes lazily on its first apply() must not make
    # the first run that uses it different from later ones
    _ = ctx.dna_spec
    with ctx.apply([0]):
        _probe_hyper()
    return ctx


class _ApplyScope:
    """ctx.apply([k]) on a context of its own, handed back to the pool afterwards."""

    def __init__(self, per_thread, k):
        self.per_thread, self.k = per_thread, k

    def __enter__(self):
        self.ctx = _take_apply_ctx(self.per_thread)
        self.cm = self.ctx.apply([self.k])
        return self.cm.__enter__()

    def __exit__(self, *a):
        try:
            return self.cm.__exit__(*a)
        finally:
            _APPLY_CTX_POOL[self.per_thread].append(self.ctx)


_ALL_APPLY_CTX = {}
for _pt in (True, False):       # collected outside any simulation
    _ALL_APPLY_CTX[_pt] = [_take_apply_ctx(_pt) for _ in range(64)]

BOOL_FLAGS = {
    'notify_on_change': (pg.notify_on_change, pg_flags.is_change_notification_enabled, True),
    'enable_type_check': (pg.enable_type_check, pg_flags.is_type_check_enabled, True),
    'track_origin': (pg.track_origin, pg_flags.is_tracking_origin, False),
}
OPT_FLAGS = {
    'allow_partial': (pg.allow_partial, pg_flags.is_under_partial_scope),
    'as_sealed': (pg.as_sealed, pg_flags.is_under_sealed_scope),
    'allow_writable_accessors': (pg.allow_writable_accessors,
                                 pg_flags.is_under_accessor_writable_scope),
    'auto_call_functors': (pg.auto_call_functors, pg_flags.should_call_functors_during_init),
}
PER_THREAD_MANAGERS = (list(BOOL_FLAGS) + list(OPT_FLAGS) + [
    'contextual_override', 'str_format', 'repr_format', 'view_options',
    'coding_context', 'coding_permission', 'detour', 'dynamic_evaluate', 'dyn_apply', 'timeit'])
PROCESS_WIDE_MANAGERS = ['dynamic_evaluate_global', 'dyn_apply_global', 'apply_wrappers', 'load_types']

PERMS = {
    'BASIC': pg.coding.CodePermission.BASIC,
    'ALL': pg.coding.CodePermission.ALL,
    'ASSIGN': pg.coding.CodePermission.ASSIGN,
    'CALL_LOOP': pg.coding.CodePermission.CALL | pg.coding.CodePermission.LOOP,
    'NONE': pg.coding.CodePermission(0),       # deny everything (a falsy flag value)
}
CLASS_NAMES = ['A', 'B', 'C', 'D']


# ---------------------------------------------------------------------------
# program generation


def gen_args(rng, mgr):
    if mgr in BOOL_FLAGS:
        return [rng.random() < 0.5]
    if mgr in OPT_FLAGS:
        return [rng.choice([True, False, None])]
    if mgr == 'contextual_override':
        names = rng.sample(['u', 'v', 'w'], rng.randint(1, 2))
        return [{n: rng.choice([0, 0, None, '', False, 1, 2, 5, 9]) for n in names},
                rng.random() < 0.3, rng.random() < 0.3]
    if mgr in ('str_format', 'repr_format'):
        keys = rng.sample(['compact', 'verbose', 'hide_default_values', 'custom_k'],
                          rng.randint(1, 2))
        return [{k: rng.choice([True, False]) for k in keys}]
    if mgr == 'view_options':
        d = {}
        for k in rng.sample(['collapse_level', 'key_style', 'extra', 'tooltip'], rng.randint(1, 2)):
            if k in ('extra', 'tooltip'):
                d[k] = {rng.choice(['p', 'q']): rng.randint(0, 5)}
            else:
                d[k] = rng.randint(0, 5)
        return [d]
    if mgr == 'coding_context':
        return [{rng.choice(['f', 'g', 'h']): rng.choice([0, None, '', 1, 4, 9])}]
    if mgr == 'coding_permission':
        return [rng.choice(sorted(PERMS))]
    if mgr == 'detour':
        n = rng.randint(1, 2)
        pairs = []
        for _ in range(n):
            s, d = rng.sample(CLASS_NAMES, 2)
            pairs.append([s, d])
        if rng.random() < 0.12:
            # an entry that fails half-way: the __new__ of an immutable type cannot
            # be patched (fault: exception raised inside __enter__)
            pairs.append(['<int>', rng.choice(CLASS_NAMES)])
        return [pairs]
    if mgr in ('dynamic_evaluate', 'dynamic_evaluate_global'):
        return [rng.choice([None, 1, 2, 3])]
    if mgr in ('dyn_apply', 'dyn_apply_global'):
        return [rng.randint(0, 2)]       # the decision DynamicEvaluationContext.apply() replays
    if mgr == 'timeit':
        return [rng.choice(['', 'a', 'b', 'c'])]
    if mgr == 'apply_wrappers':
        return [sorted(rng.sample(['W1', 'W2'], rng.randint(1, 2)))]
    if mgr == 'load_types':
        return [sorted(rng.sample(['U1', 'U2'], rng.randint(1, 2)))]
    raise ValueError(mgr)


def gen_program(rng, managers, length, max_depth):
    ev = []
    depth = 0
    for _ in range(length):
        r = rng.random()
        if depth < max_depth and (r < 0.45 or depth == 0 and r < 0.8):
            m = rng.choice(managers)
            ev.append(['enter', m, gen_args(rng, m)])
            depth += 1
        elif r < 0.75 and depth > 0:
            ev.append(['exit'])
            depth -= 1
        elif r < 0.88 and depth > 0:
            d = rng.randint(1, depth)
            ev.append(['raise', d])
            depth -= d
        elif r < 0.93:
            ev.append(['propagate'])
        elif r < 0.96 and depth > 0 and 'timeit' in managers:
            # the public TimeIt.end() called inside the block: timing stops early, the
            # scope itself (what the enclosing timing context is) must still unwind
            ev.append(['tend'])
        else:
            ev.append(['probe'])
    return ev


def gen_case(streams: Streams, tier: str) -> dict:
    cfg = streams.get('config')
    nthreads = cfg.choice([1, 1, 2, 2, 3, 4])
    ops = streams.get('ops')
    # swarm: a random subset of the managers per run
    pool = [m for m in PER_THREAD_MANAGERS if ops.random() < 0.55] or ['as_sealed']
    # process-wide managers only on thread 0, and then nobody else touches the
    # per-thread variant of the same mechanism
    pw = [m for m in PROCESS_WIDE_MANAGERS if ops.random() < 0.35]
    programs = []
    for t in range(nthreads):
        mgrs = list(pool)
        if t == 0:
            mgrs += pw
        if ('dynamic_evaluate_global' in pw or 'dyn_apply_global' in pw) and t != 0:
            mgrs = [m for m in mgrs if m not in ('dynamic_evaluate', 'dyn_apply')] or ['as_sealed']
        if 'apply_wrappers' in pw and t != 0:
            pass
        programs.append(gen_program(ops, mgrs, ops.randint(4, 24 if tier == 'quick' else 40),
                                    ops.choice([2, 4, 6])))
    if nthreads >= 2 and ops.random() < 0.2:
        # "rush": every thread's first event enters the same manager, so
        # first-use paths (class patching, lazily created stacks) overlap
        m = ops.choice(pool)
        for p in programs:
            p.insert(0, ['enter', m, gen_args(ops, m)])
    s = streams.get('schedule')
    mode = s.choice(['random', 'random', 'pct', 'burst'])
    sc = {'mode': mode, 'seed': s.randint(0, 2 ** 31)}
    if mode == 'random':
        sc['p'] = s.choice([0.005, 0.02, 0.1, 0.3])
    elif mode == 'burst':
        sc['p'] = s.choice([0.002, 0.01])
        sc['p_hi'] = s.choice([0.2, 0.5])
    else:
        sc['d'] = s.choice([1, 2, 3])
        sc['est_steps'] = s.choice([500, 2000, 8000])
    c = streams.get('clock')
    return {'programs': programs, 'sched': sc, 'quiet_obs': cfg.random() < 0.8,
            'clock': {'seed': c.randint(0, 2 ** 31), 'jumps': []},
            'process_wide': pw,
            'noise': streams.sub('noise') % (2 ** 31)}


# ---------------------------------------------------------------------------
# reference model (per-thread stack of frames)


def deep_merge(a, b):
    out = dict(a)
    for k, v in b.items():
        if isinstance(v, dict) and isinstance(out.get(k), dict):
            out[k] = deep_merge(out[k], v)
        else:
            out[k] = v
    return out


def expected(frames, shared, is_t0, pw=(), pw_stable=False):
    """Observation predicted from this thread's frames (and, for the
    process-wide managers, the shared stack driven in event order)."""
    e = {}
    for name, (_, _, default) in BOOL_FLAGS.items():
        v = default
        for m, a in frames:
            if m == name:
                v = a[0]
        e[name] = v
    for name in OPT_FLAGS:
        v = None
        for m, a in frames:
            if m == name:
                v = a[0]
        e[name] = v
    e['sealed_write_refused'] = e['as_sealed'] is True
    e['accessor_write_refused'] = e['allow_writable_accessors'] is False
    e['partial_ctor_ok'] = e['allow_partial'] is True
    e['bad_type_ctor_ok'] = e['enable_type_check'] is False
    e['callback_fires'] = e['notify_on_change'] is True
    ctx = {}
    for m, a in frames:
        if m == 'contextual_override':
            vs, cascade, override_attrs = a
            for k, v in vs.items():
                old = ctx.get(k)
                if old is not None and old[1]:
                    continue
                ctx[k] = (v, cascade, override_attrs)
    e['contextual'] = {k: v[0] for k, v in sorted(ctx.items())}
    e['contextual_flags'] = {k: [v[1], v[2]] for k, v in sorted(ctx.items())}
    for key, mgr, base in (('str_kwargs', 'str_format', {'compact': False, 'verbose': True}),
                           ('repr_kwargs', 'repr_format', {'compact': True, 'verbose': True})):
        kw = dict(base)
        for m, a in frames:
            if m == mgr:
                kw.update(a[0])
        e[key] = kw
    vo = {}
    for m, a in frames:
        if m == 'view_options':
            vo = deep_merge(vo, a[0])
    e['view_options'] = vo
    cc = {}
    for m, a in frames:
        if m == 'coding_context':
            cc.update(a[0])
    e['coding_context'] = cc
    perm = None
    for m, a in frames:
        if m == 'coding_permission':
            perm = a[0]
            break                      # outermost wins
    e['coding_permission'] = perm
    e['loop_refused'] = perm is not None and not (
        PERMS[perm] & pg.coding.CodePermission.LOOP)
    # detour + apply_wrappers share the mechanism (both on this thread's stack)
    cur = {}
    for m, a in frames:
        if m == 'detour':
            pairs = a[0]
        elif m == 'apply_wrappers':
            pairs = [[w, w + 'Wrapper'] for w in a[0]]
        else:
            continue
        new = []
        for s, d in pairs:
            if s not in cur:
                new.append((s, cur[d]) if d in cur else (s, d))
        for s, d in new:
            cur[s] = d
    e['detour_map'] = dict(sorted(cur.items()))
    e['detour_new'] = {n: cur.get(n, n) for n in CLASS_NAMES}
    if is_t0:
        e['wrapped_new'] = {n: cur.get(n, n) for n in sorted(_WRAPPED)}
    def _dyn(stack, dyn='hyper'):
        for m, a in stack:
            if m in ('dynamic_evaluate', 'dynamic_evaluate_global'):
                dyn = 'hyper' if a[0] is None else f'tag{a[0]}'
            elif m in ('dyn_apply', 'dyn_apply_global'):
                dyn = f'cand{a[0]}'
        return dyn
    if is_t0 or not ({'dynamic_evaluate_global', 'dyn_apply_global'} & set(pw)):
        e['dynamic_evaluate'] = _dyn(frames)
    elif pw_stable:
        # a process-wide evaluator entered by thread 0 is in force in every thread
        # (documented as process-wide).  Judged from other threads only while thread 0
        # is not inside the enter / exit of a process-wide manager and the
        # observation cannot be pre-empted.
        e['dynamic_evaluate'] = _dyn(shared)
    if is_t0:
        lt = {}
        for m, a in shared:
            if m == 'load_types':
                for n in a[0]:
                    lt[_UNREG[n].__name__] = True
        e['load_types'] = dict(sorted(lt.items()))
        e['unregistered_loads'] = {n: _UNREG[n].__name__ in lt for n in sorted(_UNREG)}
    return e


# ---------------------------------------------------------------------------
# the real side


class ThreadEnv:
    def __init__(self, classes):
        self.classes = classes
        self.cb = [0]
        self.tree = pg.Dict(x=1, onchange_callback=lambda updates: self.cb.__setitem__(0, self.cb[0] + 1))
        self.echo = Echo()
        self.fns = {k: (lambda x, k=k: f'tag{k}') for k in (1, 2, 3)}


def make_cm(mgr, a, env):
    if mgr in BOOL_FLAGS:
        return BOOL_FLAGS[mgr][0](a[0])
    if mgr in OPT_FLAGS:
        return OPT_FLAGS[mgr][0](a[0])
    if mgr == 'contextual_override':
        return pg.contextual_override(cascade=a[1], override_attrs=a[2], **a[0])
    if mgr == 'str_format':
        return pg.str_format(**a[0])
    if mgr == 'repr_format':
        return pg.repr_format(**a[0])
    if mgr == 'view_options':
        return pg.view_options(**a[0])
    if mgr == 'coding_context':
        return pg.coding.context(**a[0])
    if mgr == 'coding_permission':
        return pg.coding.permission(PERMS[a[0]])
    if mgr == 'detour':
        return pg.detour([(int if s == '<int>' else env.classes[s], env.classes[d])
                          for s, d in a[0]])
    if mgr == 'dynamic_evaluate':
        return pg.hyper.dynamic_evaluate(env.fns.get(a[0]), per_thread=True)
    if mgr == 'dynamic_evaluate_global':
        return pg.hyper.dynamic_evaluate(env.fns.get(a[0]), per_thread=False)
    if mgr == 'dyn_apply':
        return _ApplyScope(True, a[0])
    if mgr == 'dyn_apply_global':
        return _ApplyScope(False, a[0])
    if mgr == 'timeit':
        return pg.timeit(a[0])
    if mgr == 'apply_wrappers':
        return pg.apply_wrappers([_WRAPPERS[w] for w in a[0]])
    if mgr == 'load_types':
        return pg.JSONConvertible.load_types_for_deserialization(*[_UNREG[n] for n in a[0]])
    raise ValueError(mgr)


def _get_override(k):
    from pyglove.core.utils import contextual as _ctx
    return _ctx.get_contextual_override(k)


def _raises(fn, exc):
    try:
        fn()
    except exc:
        return True
    return False


def observe(env, is_t0):
    o = {}
    for name, (_, getter, _) in BOOL_FLAGS.items():
        o[name] = getter()
    for name, (_, getter) in OPT_FLAGS.items():
        o[name] = getter()
    t = env.tree
    # behavioural probes on a thread-private tree (restore it afterwards)
    with pg.allow_writable_accessors(True):
        o['sealed_write_refused'] = _raises(lambda: t.__setitem__('x', 2), pg.WritePermissionError)
    with pg.as_sealed(False):
        o['accessor_write_refused'] = _raises(lambda: t.__setitem__('x', 3), pg.WritePermissionError)
    # (constructing objects under as_sealed(True) is refused by the library,
    # so probes that construct neutralise that one flag with an inner scope)
    with pg.as_sealed(False), pg.allow_writable_accessors(True):
        o['partial_ctor_ok'] = not _raises(lambda: _P(), TypeError)
        o['bad_type_ctor_ok'] = not _raises(lambda: _P(x='a'), TypeError)
    n0 = env.cb[0]
    with pg.as_sealed(False), pg.allow_writable_accessors(True):
        t.rebind(x=t.x + 1)
    o['callback_fires'] = env.cb[0] == n0 + 1
    o['contextual'] = dict(sorted(pg.utils.all_contextual_values().items()))
    for k in list(o['contextual']):
        if pg.contextual_value(k, None) != o['contextual'][k]:
            o['contextual'][k] = ('mismatch', pg.contextual_value(k, None))
    o['contextual_flags'] = {}
    for k in sorted(o['contextual']):
        ov = _get_override(k)
        o['contextual_flags'][k] = None if ov is None else [ov.cascade, ov.override_attrs]
    o['str_kwargs'] = json.loads(str(env.echo))
    o['repr_kwargs'] = json.loads(repr(env.echo))
    with pg.view_options() as vo:
        o['view_options'] = json.loads(json.dumps(vo))
    o['coding_context'] = dict(pg.coding.get_context())
    p = pg.coding.get_permission()
    o['coding_permission'] = None if p is None else \
        next((k for k, v in sorted(PERMS.items()) if v == p), repr(p))
    o['loop_refused'] = _raises(
        lambda: pg.coding.evaluate('for i in range(1):\n  pass'),
        pg.coding.CodeError)
    names = {c: n for n, c in env.classes.items()}
    names.update({_W1: 'W1', _W2: 'W2', _W1Wrapper: 'W1Wrapper', _W2Wrapper: 'W2Wrapper'})
    cm = pg.detouring.current_mappings()
    o['detour_map'] = dict(sorted((names.get(s, repr(s)), names.get(d, repr(d)))
                                  for s, d in cm.items()))
    o['detour_new'] = {}
    for n in CLASS_NAMES:
        try:
            o['detour_new'][n] = names.get(type(env.classes[n]()), 'other')
        except RecursionError:
            o['detour_new'][n] = 'RecursionError'
    if is_t0:
        o['wrapped_new'] = {}
        for n, c in sorted(_WRAPPED.items()):
            try:
                o['wrapped_new'][n] = names.get(type(c()), 'other')
            except RecursionError:
                o['wrapped_new'][n] = 'RecursionError'
    with pg.enable_type_check(True), pg.as_sealed(False), pg.allow_writable_accessors(True):
        v = _probe_hyper()
    o['dynamic_evaluate'] = v if isinstance(v, str) else (
        f'cand{_PROBE_CANDIDATES.index(v)}' if v in _PROBE_CANDIDATES else 'hyper')
    if is_t0:
        with pg.JSONConvertible.load_types_for_deserialization() as reg:
            o['load_types'] = {k: True for k in sorted(reg)}
        o['unregistered_loads'] = {}
        for n, c in sorted(_UNREG.items()):
            try:
                with pg.as_sealed(False), pg.allow_writable_accessors(True), \
                        pg.enable_type_check(True):
                    r = pg.from_json({'_type': f'{c.__module__}.{c.__name__}'},
                                     auto_import=False)
                o['unregistered_loads'][n] = isinstance(r, c)
            except Exception:  # pylint: disable=broad-except
                o['unregistered_loads'][n] = False
    return o


def diff(exp, obs):
    out = []
    for k in exp:
        if k not in obs or exp[k] != obs[k]:
            out.append((k, exp[k], obs.get(k, '<absent>')))
    return out


def _targets():
    import importlib
    names = [
        'pyglove.core.utils.thread_local', 'pyglove.core.symbolic.flags',
        'pyglove.core.utils.contextual', 'pyglove.core.coding.permissions',
        'pyglove.core.detouring.class_detour', 'pyglove.core.utils.timing',
    ]
    mods = [importlib.import_module(n) for n in names]
    from pyglove.core.utils import formatting
    from pyglove.core.views import base as views_base
    from pyglove.core.coding import execution
    from pyglove.core.hyper import dynamic_evaluation, base as hyper_base
    from pyglove.core.utils import json_conversion
    from pyglove.core.symbolic import class_wrapper
    mods += [formatting.str_format, formatting.repr_format,
             formatting.Formattable.__str_kwargs__, formatting.Formattable.__repr_kwargs__,
             views_base.view_options.__wrapped__, execution.context.__wrapped__,
             execution.get_context, dynamic_evaluation.dynamic_evaluate.__wrapped__,
             hyper_base.set_dynamic_evaluate_fn, hyper_base.get_dynamic_evaluate_fn,
             json_conversion._TypeRegistry.load_types_for_deserialization.__wrapped__,
             json_conversion._TypeRegistry.class_from_typename,
             class_wrapper.apply_wrappers]
    return mods


_CODES = None


def _codes():
    global _CODES
    if _CODES is None:
        cos = []
        for m in _targets():
            cos.extend(sched.code_objects_of(m))
        _CODES = cos
    return _CODES


WATCHED = frozenset(['enter_scope', 'leave_scope', 'thread_local_value_scope',
                     'thread_local_arg_scope', 'contextual_scope', 'permission',
                     '_maybe_detoured_new', 'get_original_new', 'set_dynamic_evaluate_fn',
                     'thread_local_set', 'thread_local_del', 'thread_local_push',
                     'thread_local_pop', '__enter__', '__exit__', 'harness',
                     '<lock.acquire>', '<lock.release>', '<rmw>'])


def run_case(case: dict, prop='C17'):
    _global_random.seed(case.get('noise', 0))
    sim = sched.Sim(case['sched'], _codes(), WATCHED)
    clock = sched.SimClock(case['clock']['seed'], case['clock'].get('jumps', []))
    seams = sched.Seams(sim, clock)
    seams.install()
    try:
        return _run(case, sim, clock)
    finally:
        seams.uninstall()


def _reset_process_wide_state():
    """Harness hygiene between runs of one worker process."""
    from pyglove.core.hyper import base as hyper_base
    from pyglove.core.utils import json_conversion
    hyper_base._global_dynamic_evaluate_fn = None
    # every run starts with the same pool of (idle) apply contexts and an empty
    # process-wide context stack, whatever an aborted earlier run left behind
    from pyglove.core.hyper import dynamic_evaluation as _de
    del _de._dynamic_evaluation_stack._global_stack[:]
    for pt, ctxs in _ALL_APPLY_CTX.items():
        for ctx in ctxs:
            ctx._decision_getter = None
        _APPLY_CTX_POOL[pt][:] = list(ctxs)
    try:
        json_conversion.JSONConvertible._TYPE_REGISTRY._ondemand_registry_stack.clear()
    except AttributeError:
        pass


def _run(case, sim, clock):
    _reset_process_wide_state()
    violations = []
    faults = {}
    probes = {}
    states = []
    nthreads = len(case['programs'])
    # fresh classes per run re-expose first-use races of pg.detour
    classes = {n: type(n, (), {'__init__': lambda self: None}) for n in CLASS_NAMES}
    shared = []          # frames of process-wide managers, in event order
    pw_busy = [0]        # >0 while thread 0 is inside the enter / exit of a process-wide manager
    helpers = []

    def fault(k, n=1):
        faults[k] = faults.get(k, 0) + n

    def bad(oracle, key, msg, ti, ei):
        violations.append(Violation(
            'C17', oracle, f'{oracle}|{key}',
            f'[thread {ti} event {ei}] {msg}', step=ei))

    def make_task(ti, program):
        def body(task):
            env = ThreadEnv(classes)
            is_t0 = ti == 0
            frames = []       # reference stack: (mgr, args)
            live = []         # real side: (mgr, args, cm, timeit_node)
            timing_roots = []
            ended_early = set()   # ids of TimeIt nodes stopped by end() inside their block
            base = None

            last = {'switches': -1}

            def check(when, ei):
                if violations:
                    return
                if when == 'pre' and last['switches'] == sim.switches:
                    return          # nobody else ran since the last observation
                if case.get('quiet_obs', True):
                    sim.quiet += 1
                pw_busy_at_obs = pw_busy[0]
                try:
                    obs = observe(env, is_t0)
                    last['switches'] = sim.switches
                except sched.SimAbort:
                    raise
                except Exception as e:  # pylint: disable=broad-except
                    if os.environ.get('VERIF_DEBUG'):
                        import traceback
                        traceback.print_exc()
                    if not is_t0 and 'dyn_apply_global' in case.get('process_wide', ()) and \
                            isinstance(e, ValueError) and 'under the `apply` context' in str(e):
                        # thread 0 is entering / leaving a process-wide apply(): between
                        # installing the evaluator and setting its decisions the library
                        # raises in whatever thread creates a hyper primitive.  An effect
                        # of a process-wide manager, which the property exempts.
                        probes['pw_apply_transition_seen'] = \
                            probes.get('pw_apply_transition_seen', 0) + 1
                        return None
                    bad('C17.observe-raises', type(e).__name__,
                        f'{when}: observing the settings raised {type(e).__name__}: {e}; '
                        f'frames={frames}', ti, ei)
                    return None
                finally:
                    if case.get('quiet_obs', True):
                        sim.quiet -= 1
                exp = expected(frames, shared, is_t0, case.get('process_wide', ()),
                               pw_stable=bool(case.get('quiet_obs', True)) and pw_busy_at_obs == 0)
                for k, ev, ov in diff(exp, obs):
                    bad('C17.mismatch', f'{k}|{when}',
                        f'{when}: {k} observed {ov!r}, reference stack {frames} gives {ev!r}',
                        ti, ei)
                    break
                states.append(small_hash([len(frames), exp]))
                return obs

            def do_exit(exc):
                mgr, a, cm, node = live.pop()
                frames.pop()
                if mgr in PROCESS_WIDE_MANAGERS:
                    pw_busy[0] += 1
                try:
                    _do_exit(exc, mgr, a, cm, node)
                finally:
                    if mgr in PROCESS_WIDE_MANAGERS:
                        pw_busy[0] -= 1

            def _do_exit(exc, mgr, a, cm, node):
                if mgr in PROCESS_WIDE_MANAGERS and shared:
                    for i in range(len(shared) - 1, -1, -1):
                        if shared[i][0] == mgr:
                            del shared[i]
                            break
                sim.log('exit', t=ti, m=mgr, exc=exc is not None)
                if exc is None:
                    r = cm.__exit__(None, None, None)
                else:
                    r = cm.__exit__(type(exc), exc, exc.__traceback__)
                    if r:
                        bad('C17.swallowed', mgr, f'{mgr} swallowed the exception', ti, -1)
                if mgr == 'timeit':
                    _check_timeit_closed(node, None if id(node) in ended_early else exc, bad, ti)

            def _body(env, is_t0, frames, live, timing_roots, check, do_exit):
                base = check('before-first-enter', -1)
                for ei, e in enumerate(program):
                    if violations:
                        break
                    sim.preempt_point('harness')
                    check('pre', ei)           # catches leaks from other threads
                    kind = e[0]
                    if kind == 'enter':
                        mgr, a = e[1], e[2]
                        if mgr in ('dyn_apply', 'dyn_apply_global') and any(
                                (m == 'as_sealed' and a_[0] is True) or
                                (m == 'allow_writable_accessors' and a_[0] is False) or
                                (m == 'enable_type_check' and a_[0] is False) or
                                (m == 'allow_partial' and a_[0] is False)
                                for m, a_ in frames):
                            continue           # apply() builds symbolic values on entry
                        _PT, _PW = ('dynamic_evaluate', 'dyn_apply'), \
                            ('dynamic_evaluate_global', 'dyn_apply_global')
                        if mgr in _PT and any(m in _PW for m, _ in frames):
                            continue           # documented: cannot nest per-thread in process-wide
                        if mgr in _PT and not is_t0 and \
                                set(_PW) & set(case.get('process_wide', ())):
                            # the same restriction seen from another thread: while thread 0
                            # may hold the process-wide evaluator, entering / leaving a
                            # per-thread one trips the library's assertion (a precondition of
                            # the manager, not a scoping failure)
                            continue
                        if mgr in _PW and any(m in _PT for m, _ in frames):
                            continue
                        cm = make_cm(mgr, a, env)
                        sim.log('enter', t=ti, m=mgr)
                        parent_node = next((n for m_, _, _, n in reversed(live)
                                            if m_ == 'timeit'), None)
                        try:
                            if mgr in PROCESS_WIDE_MANAGERS:
                                pw_busy[0] += 1
                            node = cm.__enter__()
                            if mgr in ('dyn_apply', 'dyn_apply_global'):
                                # apply() insists that its decision is used
                                with pg.enable_type_check(True), pg.as_sealed(False), \
                                        pg.allow_writable_accessors(True), pg.allow_partial(None):
                                    _probe_hyper()
                        except sched.SimAbort:
                            raise
                        except Exception as ex:  # pylint: disable=broad-except
                            if mgr in PROCESS_WIDE_MANAGERS:
                                pw_busy[0] -= 1
                            if mgr == 'detour' and any(s == '<int>' for s, _ in a[0]) \
                                    and isinstance(ex, TypeError):
                                # the entry failed as it must: nothing was entered, the
                                # state has to be what it was (checked right below)
                                fault('scope_enter_fails')
                                check('post', ei)
                                continue
                            bad('C17.enter-raises', f'{mgr}|{type(ex).__name__}',
                                f'entering {mgr}{a} raised {type(ex).__name__}: {ex}; '
                                f'frames={frames}', ti, ei)
                            break
                        frames.append((mgr, a))
                        live.append((mgr, a, cm, node if mgr == 'timeit' else None))
                        if mgr in PROCESS_WIDE_MANAGERS:
                            shared.append((mgr, a))
                            pw_busy[0] -= 1
                        if mgr == 'timeit':
                            if parent_node is None:
                                timing_roots.append(node)
                            elif not any(c is node for c in parent_node.children):
                                bad('C17.timeit', 'not-child-of-enclosing',
                                    f'timeit({a[0]!r}) is not a child of the enclosing timeit',
                                    ti, ei)
                    elif kind == 'exit':
                        if live:
                            do_exit(None)
                    elif kind == 'raise':
                        d = min(e[1], len(live))
                        if d:
                            fault('scope_exit_by_exception')
                            if d >= 3:
                                probes['exception_exit_depth_ge3'] = \
                                    probes.get('exception_exit_depth_ge3', 0) + 1
                            try:
                                raise Unwind(f't{ti}e{ei}')
                            except Unwind as ex:
                                for _ in range(d):
                                    do_exit(ex)
                    elif kind == 'tend':
                        tn = next((n for m_, _, _, n in reversed(live) if m_ == 'timeit'), None)
                        if tn is not None and not tn.has_ended:
                            fault('timeit_ended_inside_block')
                            ended_early.add(id(tn))
                            tn.end()
                    elif kind == 'propagate':
                        # explicit propagation of contextual overrides into another task
                        exp_now = expected(frames, shared, is_t0, case.get('process_wide', ()))
                        inner = {k: 'inner' for k in ('u', 'v', 'w')}
                        exp_nested = expected(frames + [('contextual_override', [inner, False, False])],
                                              shared, is_t0, case.get('process_wide', ()))
                        want = [exp_now['contextual'], exp_now['contextual_flags'],
                                exp_nested['contextual']]
                        got = []

                        def probe_fn(got=got, inner=inner):
                            vals = dict(sorted(pg.utils.all_contextual_values().items()))
                            flags = {}
                            for k in vals:
                                ov = _get_override(k)
                                flags[k] = None if ov is None else [ov.cascade, ov.override_attrs]
                            # the nesting rule must survive propagation: an override
                            # nested inside the propagated ones
                            with pg.contextual_override(**inner):
                                nested = dict(sorted(pg.utils.all_contextual_values().items()))
                            got.append([vals, flags, nested])
                        wrapped = pg.with_contextual_override(probe_fn)

                        def helper(task, wrapped=wrapped, got=got, want=want, ti=ti, ei=ei):
                            plain = dict(pg.utils.all_contextual_values())
                            if plain:
                                bad('C17.leak', 'contextual-in-new-thread',
                                    f'fresh thread sees contextual values {plain}', ti, ei)
                            wrapped()
                            if got and got[0] != want:
                                bad('C17.propagate', 'with_contextual_override',
                                    f'propagated contextual values {got[0]} != {want}', ti, ei)
                            after = dict(pg.utils.all_contextual_values())
                            if after:
                                bad('C17.restore', 'contextual-after-propagated-call',
                                    f'contextual values {after} remain after the wrapped call',
                                    ti, ei)
                        sim.spawn(helper, name=f'h{ti}.{ei}')
                        probes['propagations'] = probes.get('propagations', 0) + 1
                    check('post', ei)
                # close what is still open, then compare with the initial observation
                while live and not violations:
                    do_exit(None)
                    check('post-close', len(program))
                final = None
                if not violations and base is not None:
                    final = check('final', len(program))
                if not violations and base is not None and final is not None:
                    judged = expected([], shared, is_t0, case.get('process_wide', ()))
                    for k, bv, fv in diff({k: v for k, v in base.items() if k in judged},
                                          final):
                        bad('C17.restore', k,
                            f'after the last exit {k} is {fv!r} but was {bv!r} before the '
                            f'first enter', ti, len(program))
                        break
                if not violations:
                    for root in timing_roots:
                        _check_timeit_tree(root, bad, ti, clock_monotone=True,
                                           ended_early=ended_early)
            try:
                _body(env, is_t0, frames, live, timing_roots, check, do_exit)
            finally:
                # never leave a scope open (process-wide state would leak
                # into the next run of this worker process)
                while live:
                    mgr, a, cm, node = live.pop()
                    try:
                        cm.__exit__(None, None, None)
                    except BaseException:  # pylint: disable=broad-except
                        pass

        return body

    for ti, program in enumerate(case['programs']):
        sim.spawn(make_task(ti, program), name=f't{ti}')
    try:
        sim.run()
    except sched.Deadlock as e:
        violations.append(Violation('C17', 'C17.deadlock', 'C17.deadlock', f'deadlock {e}'))
    except sched.StepCap as e:
        violations.append(Violation('C17', 'C17.liveness', 'C17.liveness', str(e)))
    for t in sim.tasks:
        if t.exc is not None and not violations:
            raise t.exc           # harness bug: surfaces as harness error
    fault('ctx_switch', sim.switches)
    if sim.lock_contention:
        fault('lock_contention', sim.lock_contention)
    proj = [(tid, kind, sorted(d.items())) for _, tid, kind, d in sim.events]
    n_events = sum(len(p) for p in case['programs'])
    max_depth = 0
    for p in case['programs']:
        d = 0
        for e in p:
            if e[0] == 'enter':
                d += 1
                max_depth = max(max_depth, d)
            elif e[0] == 'exit' and d:
                d -= 1
            elif e[0] == 'raise':
                d -= min(d, e[1])
    return {
        'violations': violations,
        'digest': digest([proj, sim.decisions, sim.steps, [v.sig for v in violations]]),
        'interleaving': small_hash(proj),
        'nontrivial': bool(max_depth >= 2 and n_events >= 4),
        'ntkey': digest(case['programs']),
        'faults': faults, 'probes': probes, 'steps': sim.steps,
        'sim_time': clock.elapsed(), 'states': states,
        'decisions': sim.decisions,
        'summary': {'threads': nthreads, 'events': n_events, 'max_depth': max_depth,
                    'mode': case['sched']['mode'], 'switches': sim.switches},
    }


def _check_timeit_closed(node, exc, bad, ti):
    if not node.has_ended:
        bad('C17.timeit', 'not-ended', f'timeit({node.name!r}) has not ended after exit', ti, -1)
    if (exc is not None) != node.has_error:
        bad('C17.timeit', 'error-flag',
            f'timeit({node.name!r}) has_error={node.has_error} after exit with exc={exc!r}', ti, -1)


def _check_timeit_tree(node, bad, ti, clock_monotone, ended_early=()):
    st = node.status()
    for k, s in st.items():
        if not s.has_ended:
            bad('C17.timeit', 'status-not-ended', f'status {k!r} not ended', ti, -1)
    for c in node.children:
        if clock_monotone and id(node) not in ended_early and not (node.start_time <= c.start_time <= c.end_time <= node.end_time):
            bad('C17.timeit', 'child-outside-parent',
                f'child {c.name!r} [{c.start_time},{c.end_time}] outside parent '
                f'{node.name!r} [{node.start_time},{node.end_time}]', ti, -1)
        _check_timeit_tree(c, bad, ti, clock_monotone, ended_early)


# ---------------------------------------------------------------------------
# driver interface


def to_script_case(case, result):
    c = dict(case)
    c['sched'] = {'mode': 'script', 'decisions': [list(d) for d in result['decisions']]}
    return c


def shrink_candidates(case):
    progs = case['programs']
    if len(progs) > 1 and case['sched']['mode'] != 'script':
        for i in range(len(progs) - 1, -1, -1):
            c = dict(case)
            c['programs'] = progs[:i] + progs[i + 1:]
            yield f'drop-thread-{i}', c
    for i, p in enumerate(progs):
        if p:
            c = dict(case)
            c['programs'] = [list(x) for x in progs]
            c['programs'][i] = []
            yield f'empty-thread-{i}', c


LIST_PARTS = [('programs', 0), ('programs', 1), ('programs', 2), ('programs', 3),
              ('sched', 'decisions')]


def budget(tier):
    if tier == 'quick':
        return {'runs': 3000, 'wall': 75, 'chunk': 16, 'selftest': 6, 'minimise_s': 60,
                'canary_runs': 3000, 'canary_wall': 90}
    return {'runs': 120000, 'wall': 900, 'chunk': 32, 'selftest': 16, 'minimise_s': 180,
            'canary_runs': 3000, 'canary_wall': 90}


RULE = ('Each run: 1-4 threads, each with a seeded program of enter/exit/raise-through-d/'
        'probe/propagate events over a per-run random subset of the 19 scoped-setting '
        'managers (process-wide ones only on thread 0), run under the seeded scheduler; '
        'every observation is compared with the thread\'s reference stack before and after '
        'every event and with the initial observation after the last exit. Non-trivial: '
        'nesting depth >= 2 and >= 4 events. Distinct: digest of the programs.')
DISTINCT_MEASURE = ('distinct_states = distinct (stack depth, predicted observation) pairs visited; '
                    'distinct_interleavings = distinct enter/exit event sequences across threads')
COMPONENTS = {
    'real': ['pyglove.core.utils.thread_local', 'symbolic.flags scopes', 'utils.contextual',
             'str_format/repr_format + Formattable', 'views.view_options',
             'coding.context/permission/evaluate', 'detouring.class_detour', 'apply_wrappers',
             'hyper.dynamic_evaluate', 'JSONConvertible.load_types_for_deserialization',
             'utils.timing.TimeIt', 'threading.local (real, on real threads)'],
    'stub': ['thread scheduler (baton passing at LINE events)', 'time.time (SimClock)',
             'probe classes / Echo formattable defined by the harness'],
}
ASSUMPTIONS = [
    'process-wide managers (apply_wrappers, dynamic_evaluate(per_thread=False), '
    'load_types_for_deserialization) are driven from one thread only; no isolation is demanded of them',
    'per-thread and process-wide dynamic_evaluate are never nested into each other (documented as unsupported)',
    'exceptions are raised by the harness between library calls, never asynchronously inside library code',
]


# ---------------------------------------------------------------------------
# canaries


def _reset_codes():
    global _CODES
    _CODES = None


def _canary(mod_name, owner_name, fn_name, old, new, count=1):
    def apply():
        import importlib
        from sim.canary import patch_source
        mod = importlib.import_module(mod_name)
        owner = getattr(mod, owner_name) if owner_name else mod
        patch_source(owner, fn_name, old, new, count)
        _rebind_public(mod, fn_name)
        _reset_codes()
    return {'apply': apply}


def _rebind_public(mod, fn_name):
    """Module-level functions are re-exported (pg.xxx, pg.utils.xxx, ...):
    point every alias in loaded pyglove modules at the patched function."""
    new = getattr(mod, fn_name, None)
    if new is None or not callable(new):
        return
    for name, m in list(sys.modules.items()):
        if m is None or not name.startswith('pyglove'):
            continue
        old = vars(m).get(fn_name)
        if old is not None and old is not new and getattr(old, '__module__', None) == mod.__name__ \
                and getattr(old, '__name__', None) == fn_name:
            setattr(m, fn_name, new)


def _c_shared_tls():
    import types as _t
    from pyglove.core.utils import thread_local
    thread_local._thread_local_state = _t.SimpleNamespace()
    _reset_codes()


CANARIES = {
    'value_scope_restores_default': _canary(
        'pyglove.core.utils.thread_local', None, 'thread_local_value_scope',
        'thread_local_set(key, previous_value)', 'thread_local_set(key, initial_value)'),
    'arg_scope_no_finally': _canary(
        'pyglove.core.utils.thread_local', None, 'thread_local_arg_scope',
        '  finally:\n', '  except ZeroDivisionError:\n    raise\n  else:\n'),
    'contextual_scope_restores_empty': _canary(
        'pyglove.core.utils.contextual', None, 'contextual_scope',
        'setattr(tls, _TLS_KEY_CONTEXTUAL_OVERRIDES, previous_values)',
        'setattr(tls, _TLS_KEY_CONTEXTUAL_OVERRIDES, {})'),
    'contextual_cascade_ignored': _canary(
        'pyglove.core.utils.contextual', None, 'contextual_scope',
        'if old_v and old_v.cascade:', 'if False:'),
    'permission_inner_wins': _canary(
        'pyglove.core.coding.permissions', None, 'permission',
        'if outter_perm is not None:', 'if False:'),
    'view_options_shallow_merge': _canary(
        'pyglove.core.views.base', None, 'view_options',
        'options = utils.merge([parent_options, kwargs])',
        'options = dict(parent_options, **kwargs)'),
    'detour_enter_inside_try': _canary(
        'pyglove.core.detouring.class_detour', None, 'detour',
        '  resolved_mappings = _global_detour_context.enter_scope(mappings)\n  try:\n    yield resolved_mappings\n',
        '  try:\n    yield _global_detour_context.enter_scope(mappings)\n'),
    'detour_leave_pops_bottom': _canary(
        'pyglove.core.detouring.class_detour', '_DetourContext', 'leave_scope',
        'self._detour_stack.pop(-1)', 'self._detour_stack.pop(0)'),
    'detour_first_use_unlocked': _canary(
        'pyglove.core.detouring.class_detour', '_DetourContext', 'enter_scope',
        'with self._lock:', 'if True:'),
    'detour_outer_precedence_lost': _canary(
        'pyglove.core.detouring.class_detour', '_DetourContext', 'enter_scope',
        'if src not in cur_mappings:', 'if True:'),
    'dynamic_evaluate_residue': _canary(
        'pyglove.core.hyper.base', None, 'set_dynamic_evaluate_fn',
        'if fn is None:', 'if False:'),
    'timeit_parent_not_restored': _canary(
        'pyglove.core.utils.timing', 'TimeIt', '__exit__',
        "thread_local.thread_local_set('__timing_context__', self._parent)", 'pass'),
    'coding_context_no_pop_on_error': _canary(
        'pyglove.core.coding.execution', None, 'context',
        '  finally:\n', '  except ZeroDivisionError:\n    raise\n  else:\n'),
    'shared_thread_local_state': {'apply': _c_shared_tls},
    'load_types_no_pop_on_error': _canary(
        'pyglove.core.utils.json_conversion', '_TypeRegistry', 'load_types_for_deserialization',
        '  finally:\n', '  except ZeroDivisionError:\n    raise\n  else:\n'),
}
