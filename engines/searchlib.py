"""Shared by the search engines (C12, C14, C15, C16): JSON descriptors for
search spaces and algorithms, and builders that turn them into real pyglove
objects.  Everything is a pure function of the descriptor."""
import pyglove as pg
from pyglove.ext.evolution import base as evo_base  # noqa: F401


# ---------------------------------------------------------------------------
# spaces


def gen_seed(rng):
    """A seed argument; 0 (a valid seed that is falsy) comes up often."""
    r = rng.randint(0, 10 ** 6)
    return 0 if r % 7 == 0 else r


def gen_space(rng, max_points=4, depth=0, allow_float=True, named=None,
              counter=None, bias=False):
    """Random DNASpec descriptor.  Small on purpose so dedup/sweep exhaust:
    at most `max_points` top-level points, nesting depth <= 2, and a global
    budget of 7 decision points."""
    if counter is None:
        counter = [0]
    if named is None:
        named = rng.random() < 0.4
    n = rng.randint(1, max_points) if depth == 0 else 1
    elements = []
    for _ in range(n):
        if counter[0] >= 7:
            break
        elements.append(gen_point(rng, depth, allow_float, named, counter, bias))
    return {'kind': 'space', 'elements': elements}


def gen_point(rng, depth, allow_float, named, counter, bias=False):
    """`bias`: conditional (nested) points are mostly constrained multi-choices,
    the shapes on which operators have to repair what they merge or re-draw."""
    counter[0] += 1
    name = f'dp{counter[0]}' if named else None
    r = rng.random()
    if bias and depth > 0:
        ncand = rng.randint(3, 4)
        if r < 0.15 and allow_float:
            return {'kind': 'float', 'min': 0.0, 'max': 1.0, 'name': name}
        if r < 0.35:
            k, distinct, srt = 1, True, False
        else:
            distinct = rng.random() < 0.8
            srt = rng.random() < 0.35
            k = rng.randint(2, ncand)
            if distinct and not srt and rng.random() < 0.5:
                k = ncand
        cands = [{'kind': 'space', 'elements': []} for _ in range(ncand)]
        return {'kind': 'choices', 'k': k, 'cands': cands, 'distinct': distinct,
                'sorted': srt, 'name': name, 'literal': None}
    if allow_float and r < 0.2:
        lo = rng.choice([0.0, -1.0, 0.5, 1e-3])
        hi = lo + rng.choice([1.0, 2.5, 10.0])
        return {'kind': 'float', 'min': lo, 'max': hi, 'name': name}
    ncand = rng.randint(2, 4)
    if r < 0.6:
        k = 1
        distinct, srt = True, False
    else:
        distinct = rng.random() < 0.6
        srt = rng.random() < 0.4
        k = rng.randint(1, ncand if distinct else ncand + 1)
        k = min(k, 3)
        if distinct and rng.random() < 0.3:
            k = ncand                      # a permutation (every candidate exactly once)
            srt = False
    cands = []
    for _ in range(ncand):
        if depth < 2 and counter[0] < 7 and rng.random() < 0.28:
            cands.append(gen_space(rng, 1, depth + 1, allow_float, named, counter, bias))
        else:
            cands.append({'kind': 'space', 'elements': []})
    lit = None
    if rng.random() < 0.3:
        lit = [f'v{i}' if rng.random() < 0.7 else i * 10 for i in range(ncand)]
    return {'kind': 'choices', 'k': k, 'cands': cands, 'distinct': distinct,
            'sorted': srt, 'name': name, 'literal': lit}


def build_space(desc, located=False, loc=None):
    """`located`: every decision point gets a location of its own (as specs derived
    from hyper values have), so that decision ids are unique."""
    kw = {'location': pg.KeyPath.parse(loc)} if located and loc else {}
    if desc['kind'] == 'space':
        return pg.geno.space([build_space(e, located, f'e{i}')
                              for i, e in enumerate(desc['elements'])])
    if desc['kind'] == 'float':
        return pg.geno.floatv(desc['min'], desc['max'], name=desc.get('name'), **kw)
    if desc['kind'] == 'choices':
        return pg.geno.manyof(
            desc['k'], [build_space(c, located) for c in desc['cands']],
            distinct=desc['distinct'], sorted=desc['sorted'],
            literal_values=desc.get('literal'), name=desc.get('name'), **kw)
    raise ValueError(desc)


def build_root_space(desc, located=False):
    spec = build_space(desc, located)
    if not isinstance(spec, pg.geno.Space):
        spec = pg.geno.space([spec])
    return spec


def space_has_float(desc):
    if desc['kind'] == 'float':
        return True
    if desc['kind'] == 'space':
        return any(space_has_float(e) for e in desc['elements'])
    return any(space_has_float(c) for c in desc['cands'])


# ---------------------------------------------------------------------------
# algorithms


def gen_mutator(rng, allow_swap=False):
    kinds = ['uniform'] * 3 + (['swap'] if allow_swap else [])
    return {'kind': rng.choice(kinds), 'seed': gen_seed(rng)}


def build_mutator(desc):
    m = pg.evolution.mutators
    if desc['kind'] == 'uniform':
        return m.Uniform(seed=desc['seed'])
    if desc['kind'] == 'swap':
        return m.Swap(seed=desc['seed'])
    raise ValueError(desc)


ALGO_KINDS = ['sweeping', 'random', 'dedup_random', 'dedup_sweeping',
              'regevo', 'hill_climb', 'nsga2', 'neat', 'dedup_regevo']


def gen_algo(rng, kinds=None, allow_swap=False):
    kind = rng.choice(kinds or ALGO_KINDS)
    seed = gen_seed(rng)
    d = {'kind': kind, 'seed': seed}
    if kind.startswith('dedup'):
        d['max_duplicates'] = rng.choice([1, 1, 2, 3])
        d['auto_reward'] = rng.random() < 0.5
        d['max_attempts'] = rng.choice([5, 20, 100])
    if kind in ('regevo', 'dedup_regevo'):
        d['population_size'] = rng.randint(2, 5)
        d['tournament_size'] = rng.randint(2, d['population_size'])
        d['mutator'] = gen_mutator(rng, allow_swap)
    if kind == 'hill_climb':
        d['batch_size'] = rng.randint(1, 3)
        d['init_population_size'] = rng.randint(1, 3)
        d['mutator'] = gen_mutator(rng, allow_swap)
    if kind == 'nsga2':
        d['population_size'] = rng.randint(1, 3)
        d['mutator'] = gen_mutator(rng, allow_swap)
    if kind == 'neat':
        d['population_size'] = rng.randint(2, 5)
        d['mutator'] = gen_mutator(rng, allow_swap)
    return d


def _avg(rs):
    return sum(rs) / len(rs)


def build_algo(d):
    kind, seed = d['kind'], d['seed']
    if kind == 'sweeping':
        return pg.geno.Sweeping()
    if kind == 'random':
        return pg.geno.Random(seed=seed)
    if kind == 'regevo':
        return pg.evolution.regularized_evolution(
            mutator=build_mutator(d['mutator']),
            population_size=d['population_size'],
            tournament_size=d['tournament_size'], seed=seed)
    if kind == 'hill_climb':
        return pg.evolution.hill_climb(
            mutator=build_mutator(d['mutator']), batch_size=d['batch_size'],
            init_population_size=d['init_population_size'], seed=seed)
    if kind == 'nsga2':
        return pg.evolution.nsga2(
            mutator=build_mutator(d['mutator']),
            population_size=d['population_size'], seed=seed)
    if kind == 'neat':
        return pg.evolution.neat(
            mutator=build_mutator(d['mutator']),
            population_size=d["population_size"], seed=seed)
    if kind.startswith('dedup_'):
        inner = dict(d)
        inner['kind'] = {'dedup_random': 'random', 'dedup_sweeping': 'sweeping',
                         'dedup_regevo': 'regevo'}[kind]
        return pg.geno.Deduping(
            build_algo(inner), max_duplicates=d['max_duplicates'],
            auto_reward_fn=_avg if d.get('auto_reward') else None,
            max_proposal_attempts=d.get('max_attempts', 100))
    raise ValueError(d)


def is_multi_objective(d):
    return d['kind'] == 'nsga2'


def reward_of(dna, trial_id, multi=False):
    """Stub 'evaluation': a pure function of the DNA numbers and trial id."""
    nums = dna.to_numbers(flatten=True)
    if not isinstance(nums, list):
        nums = [nums]
    base = 0.0
    for i, n in enumerate(nums):
        base += (i + 1) * float(n)
    r = round(1.0 + base % 7.0, 3)     # strictly positive: no zero weights
    if multi:
        return (r, float(trial_id % 3))
    return r
