"""C15 — search algorithms recover their state from history at every crash point.

The "system" is a controller process that owns a search algorithm and a
persistent trial store.  The simulator crashes the controller after k
proposals with the last w rewards still in flight, restarts it as a fresh
instance that replays the store (everything through JSON), and compares it
with the uninterrupted instance; then faults stop, the late rewards arrive
and both continue.

Real code: DNAGenerator.recover/_replay and every override (Sweeping, Random,
Deduping, Evolution), all shipped evolution algorithms, DNA JSON conversion.
Stubs: the trial store (in-process list of JSON strings), evaluation (pure
function of the DNA), an optional scripted inner generator for observing
Deduping's memory.
"""
import json
import random as _global_random

import pyglove as pg

from sim.core import Streams, Violation, digest, small_hash
from engines import searchlib

PROPS = ['C15']

EVO_KINDS = ('regevo', 'hill_climb', 'nsga2', 'neat', 'evo_custom', 'evo_sweep_init')
DETERMINISTIC_KINDS = ('sweeping', 'random', 'dedup_random', 'dedup_sweeping',
                       'dedup_scripted', 'dedup_scripted_fb')


# ---------------------------------------------------------------------------
# a scripted inner generator (stub) to make Deduping's memory observable


@pg.members([
    ('numbers', pg.typing.List(pg.typing.Any())),
    ('wants_feedback', pg.typing.Bool(False)),
])
class Scripted(pg.DNAGenerator):
    """Proposes a fixed cyclic sequence of DNAs; state = position only."""

    def _setup(self):
        self._pos = 0

    @property
    def needs_feedback(self):
        return self.wants_feedback

    def _propose(self):
        nums = self.numbers[self._pos % len(self.numbers)]
        self._pos += 1
        return pg.DNA.from_numbers(list(nums), self.dna_spec)

    def _feedback(self, dna, reward):
        pass

    def _replay(self, trial_id, dna, reward):
        self._pos += 1


def build_algo(d, spec_desc):
    if d['kind'] == 'evo_custom':
        from engines import c14
        return pg.evolution.Evolution(
            c14.build(d['repro']),
            population_init=(pg.geno.Random(seed=d['seed']), d['population_size']),
            population_update=pg.evolution.selectors.Last(d['population_size'] + 1))
    if d['kind'] == 'evo_sweep_init':
        # the initial population is whatever the initializer yields until it stops
        return pg.evolution.Evolution(
            pg.evolution.selectors.Top(1) >> pg.evolution.mutators.Uniform(seed=d['seed']),
            population_init=pg.geno.Sweeping(),
            population_update=pg.evolution.selectors.Top(d['population_size']))
    if d['kind'] == 'dedup_hill_climb':
        inner = dict(d, kind='hill_climb')
        return pg.geno.Deduping(
            searchlib.build_algo(inner), max_duplicates=d['max_duplicates'],
            auto_reward_fn=searchlib._avg if d.get('auto_reward') else None,
            max_proposal_attempts=d.get('max_attempts', 100))
    if d['kind'] in ('dedup_scripted', 'dedup_scripted_fb'):
        inner = Scripted(numbers=d['numbers'],
                         wants_feedback=d['kind'].endswith('_fb'))
        return pg.geno.Deduping(
            inner, max_duplicates=d['max_duplicates'],
            auto_reward_fn=searchlib._avg if d.get('auto_reward') else None,
            max_proposal_attempts=d.get('max_attempts', 100))
    return searchlib.build_algo(d)


# ---------------------------------------------------------------------------
# case generation


def gen_case(streams: Streams, tier: str) -> dict:
    cfg = streams.get('config')
    kinds = ['sweeping', 'random', 'dedup_random', 'dedup_sweeping',
             'dedup_scripted', 'dedup_scripted_fb',
             'regevo', 'regevo', 'hill_climb', 'nsga2', 'neat', 'dedup_regevo',
             'evo_custom', 'dedup_hill_climb']
    kind = cfg.choice(kinds)
    base_kind = {'evo_custom': 'regevo', 'evo_sweep_init': 'regevo',
                 'dedup_hill_climb': 'dedup_regevo'}.get(kind, kind)
    algo = searchlib.gen_algo(cfg, [base_kind if not kind.startswith('dedup_scripted')
                                    else 'dedup_random'])
    if kind == 'dedup_hill_climb':
        algo['batch_size'] = cfg.randint(1, 3)
        algo['init_population_size'] = cfg.randint(1, 3)
    if kind == 'evo_custom':
        from engines import c14
        ex = streams.get('expr')
        algo['repro'] = {'c': '>>', 'a': c14.gen_expr(ex, 1, 'sel'),
                         'b': c14.gen_leaf(ex, ('mut',), allow_swap=True)}
    algo['kind'] = kind
    space = searchlib.gen_space(cfg, max_points=3,
                                allow_float=('sweeping' not in kind and 'sweep' not in kind
                                             and 'scripted' not in kind))
    if kind.startswith('dedup_scripted'):
        # a short cyclic script of valid DNAs with repeats, drawn with a
        # private seeded generator over the real spec
        spec = searchlib.build_root_space(space)
        r = _global_random.Random(cfg.randint(0, 10 ** 6))
        pool = [pg.random_dna(spec, r).to_numbers() for _ in range(cfg.randint(2, 4))]
        algo['numbers'] = [pool[cfg.randrange(len(pool))] for _ in range(cfg.randint(3, 8))] + pool
        algo['max_attempts'] = cfg.choice([3, 5, 20])
    n = cfg.randint(0, 8 if tier == 'quick' else 12)
    crashes = []
    for k in range(0, n + 1):
        for w in range(0, min(k, 2 if tier == 'quick' else 3) + 1):
            for mode in ('meta_after_feedback', 'meta_at_proposal'):
                crashes.append([k, w, mode])
    c = streams.get('crash')
    cap = 10 if tier == 'quick' else 24
    if len(crashes) > cap:
        c.shuffle(crashes)
        crashes = sorted(crashes[:cap])
    return {'space': space, 'algo': algo, 'n': n, 'crashes': crashes,
            'propose_first': c.choice([0, 0, 1, 2]),
            'zero_rewards': c.random() < 0.3,
            'continue': cfg.randint(1, 4),
            'noise': streams.sub('noise') % (2 ** 31)}


# ---------------------------------------------------------------------------
# the simulated controller


class Store:
    """Persistent trial store: JSON strings only."""

    def __init__(self):
        self.proposed = []     # DNA JSON at proposal time
        self.completed = {}    # index -> (reward JSON, DNA JSON after feedback)

    def history(self, spec, k, w, mode):
        out = []
        for j in range(k):
            has_reward = j < k - w and j in self.completed
            if has_reward:
                reward_js, dna_after = self.completed[j]
                reward = json.loads(reward_js)
                if isinstance(reward, list):
                    reward = tuple(reward)
                js = dna_after if mode == 'meta_after_feedback' else self.proposed[j]
            else:
                reward = None
                js = self.proposed[j]
            dna = pg.from_json_str(js)
            dna.use_spec(spec)
            out.append((dna, reward))
        return out


def drive(algo, spec, k, w, multi, store=None):
    """Uninterrupted controller: k proposals, rewards delivered with lag w.
    Returns the list of live DNA objects proposed."""
    dnas = []
    stopped = False
    for j in range(k):
        try:
            dna = algo.propose()
        except StopIteration:
            stopped = True
            break
        dnas.append(dna)
        if store is not None:
            store.proposed.append(dna.to_json_str())
        if j - w >= 0:
            _deliver(algo, dnas, j - w, multi, store)
    return dnas, stopped


_ZERO_REWARDS = [False]      # set per run from case['zero_rewards']


def _deliver(algo, dnas, j, multi, store=None):
    dna = dnas[j]
    auto = dna.metadata.get('reward') if dna.metadata.get('dedup_key') is not None \
        and 'feedback_sequence_number' not in dna.metadata else None
    reward = searchlib.reward_of(dna, j + 1, multi)
    if _ZERO_REWARDS[0] and not multi and int(reward * 1000) % 3 == 0:
        reward = 0.0         # a legitimate reward value that is falsy
    if auto is not None and not isinstance(auto, type(None)):
        # reward computed at the controller side (Deduping.auto_reward_fn):
        # pg.sample feeds exactly this value back
        reward = auto
    algo.feedback(dna, reward)
    if store is not None:
        r = list(reward) if isinstance(reward, tuple) else reward
        store.completed[j] = (json.dumps(r), dna.to_json_str())
    return reward


def _continue(algo, dnas, kk, ww, m, multi, propose_first=0):
    """(optionally `propose_first` proposals while the rewards are still in flight,)
    the late rewards arrive, then m more propose/feedback steps."""
    out = {'late': [], 'proposals': [], 'exc': None, 'obs_late': None, 'obs_end': None,
           'phase': [], 'early_phase': [], 'early_exc': None}
    dnas = list(dnas)
    early = []
    for _ in range(propose_first):
        try:
            d = algo.propose()
        except StopIteration:
            out['early_phase'].append('stop')
            break
        except Exception as e:  # pylint: disable=broad-except
            out['early_exc'] = (type(e).__name__, str(e)[:120])
            out['early_phase'].append('raise')
            break
        out['early_phase'].append(bool(d.metadata.get('initial_population', False)))
        early.append(d)
    try:
        for j in range(kk - ww, kk):
            out['late'].append(_deliver(algo, dnas, j, multi))
        out['obs_late'] = observe(algo)
        for d in early:
            dnas.append(d)
            _deliver(algo, dnas, len(dnas) - 1, multi)
        for _ in range(m):
            try:
                d = algo.propose()
            except StopIteration:
                out['proposals'].append(None)
                break
            out['proposals'].append(d.to_numbers())
            out['phase'].append(bool(d.metadata.get('initial_population', False)))
            dnas.append(d)
            _deliver(algo, dnas, len(dnas) - 1, multi)
        out['obs_end'] = observe(algo)
    except Exception as e:  # pylint: disable=broad-except
        out['exc'] = (type(e).__name__, str(e)[:200])
    return out


def observe(algo):
    """Observable state the property lists."""
    obs = {'num_proposals': algo.num_proposals,
           'num_feedbacks': algo.num_feedbacks,
           'needs_feedback': bool(algo.needs_feedback)}
    if isinstance(algo, pg.evolution.Evolution):
        obs['population'] = [
            [d.to_numbers(), _fit(d)] for d in algo.population]
    inner = getattr(algo, 'generator', None)
    if isinstance(algo, pg.geno.Deduping) and isinstance(inner, pg.DNAGenerator):
        obs['inner'] = observe(inner)
        # the de-duplication memory: per key the rewards seen (what auto_reward_fn is
        # given); for generators that take no feedback only the number of uses counts
        mem = getattr(algo, '_cache', None)
        if isinstance(mem, dict):
            fb = bool(algo.needs_feedback)
            # (the keys themselves are Python hashes, which differ between
            # interpreters: the memory is compared as a multiset of entries)
            obs['dedup'] = sorted(
                (sorted(repr(list(r) if isinstance(r, tuple) else r) for r in rs)
                 if fb else [len(rs)]) for rs in mem.values())
    return obs


def _fit(d):
    f = pg.evolution.get_fitness(d)
    return list(f) if isinstance(f, tuple) else f


def run_case(case: dict, prop='C15'):
    violations = []
    faults = {}
    probes = {}
    states = []
    steps = 0
    kind = case['algo']['kind']
    multi = searchlib.is_multi_objective(case['algo'])
    _ZERO_REWARDS[0] = bool(case.get('zero_rewards'))
    if _ZERO_REWARDS[0]:
        probes['zero_rewards'] = 1
    spec = searchlib.build_root_space(case['space'])
    spec_r = searchlib.build_root_space(case['space'])   # the restarted process's own copy
    log = []

    def bad(oracle, detail, msg, k, w, mode):
        violations.append(Violation(
            'C15', oracle, f'{oracle}|{kind}|{detail}',
            f'[k={k} w={w} mode={mode}] {msg}'))

    def fault(name, n=1):
        faults[name] = faults.get(name, 0) + n

    for k, w, mode in case['crashes']:
        if any(v.oracle != 'C15.continuation-dropped' for v in violations):
            break
        if k > case['n'] or w > k:
            continue
        # ---- uninterrupted controller up to the crash point
        _global_random.seed(case['noise'])
        U = build_algo(case['algo'], case['space'])
        U.setup(spec)
        store = Store()
        try:
            u_dnas, stopped = drive(U, spec, k, w, multi, store)
        except Exception:  # pylint: disable=broad-except
            # the uninterrupted run itself fails on this workload (e.g. neat
            # with all-equal fitness divides by zero): nothing to recover
            probes['uninterrupted_run_raises'] = probes.get('uninterrupted_run_raises', 0) + 1
            continue
        kk = len(u_dnas)
        ww = min(w, kk)
        steps += kk
        fault('controller_crash')
        if ww:
            fault('reward_lost_in_flight', ww)
        fault('metadata_persisted_after_feedback' if mode == 'meta_after_feedback'
              else 'metadata_persisted_before_feedback')
        if stopped:
            probes['algo_exhausted'] = probes.get('algo_exhausted', 0) + 1
        # ---- restart: fresh instance, same space, replays the store
        _global_random.seed(case['noise'] + 1)     # a new process: other global RNG state
        R = build_algo(case['algo'], case['space'])
        R.setup(spec_r)
        hist = store.history(R.dna_spec, kk, ww, mode)
        try:
            split = case.get('split')
            if split is not None and len(hist) >= 2:
                # "recover could be called multiple times if there are multiple
                # sources of history"
                j = 1 + split % (len(hist) - 1)
                R.recover(hist[:j])
                R.recover(hist[j:])
                probes['split_recover'] = probes.get('split_recover', 0) + 1
            else:
                R.recover(hist)
        except Exception as e:  # pylint: disable=broad-except
            bad('C15.recover-raises', type(e).__name__,
                f'recover() raised {type(e).__name__}: {e}', k, w, mode)
            break
        ou, orr = observe(U), observe(R)
        states.append(small_hash([kind, ou]))
        log.append([k, w, mode, ou, orr])
        _compare(ou, orr, bad, k, w, mode, U, 'at-restart')
        if violations:
            break
        if isinstance(U, pg.evolution.Evolution) and kk - ww > 0 and \
                getattr(U, '_population_initialized', False):
            probes['crash_after_phase_switch'] = probes.get('crash_after_phase_switch', 0) + 1
        dropped = isinstance(U, pg.geno.Deduping) and \
            U.generator.num_proposals != U.num_proposals
        if dropped:
            probes['dedup_dropped_duplicates'] = probes.get('dedup_dropped_duplicates', 0) + 1
        # ---- faults stop: the late rewards arrive at both, then both continue
        r_dnas = [d for d, _ in hist]
        m = case.get('continue', 3)
        pf = case.get('propose_first', 0) if kind not in DETERMINISTIC_KINDS else 0
        tu = _continue(U, u_dnas, kk, ww, m, multi, pf)
        tr = _continue(R, r_dnas, kk, ww, m, multi, pf)
        steps += 2 * m
        if pf and tu['early_phase'] and tu['early_phase'][0] is True and \
                tr['early_phase'][:1] != [True]:
            # while the uninterrupted run is still in its initial-population phase
            # (no randomness of the evolution itself involved yet), the recovered one
            # must be as well
            bad('C15.phase', 'initial-population-at-restart',
                f'right after restart (rewards still in flight) the recovered instance '
                f'{"raises " + str(tr["early_exc"]) if tr["early_exc"] else "proposes initial_population=" + str(tr["early_phase"])} '
                f'while the uninterrupted one proposes an initial-population DNA', k, w, mode)
            break
        if tu['early_exc'] or tr['early_exc'] or \
                len(tu['early_phase']) != len(tr['early_phase']):
            # (non-deterministic kinds only) the algorithm's own arithmetic failed
            # on one of two trajectories whose randomness is not recovered
            probes['continuation_exception'] = probes.get('continuation_exception', 0) + 1
            continue
        if pf:
            probes['proposed_before_late_rewards'] = probes.get('proposed_before_late_rewards', 0) + 1
        if tu['exc'] or tr['exc']:
            probes['continuation_exception'] = probes.get('continuation_exception', 0) + 1
            if kind in DETERMINISTIC_KINDS and tu['exc'] != tr['exc']:
                bad('C15.continue-raises', (tr['exc'] or tu['exc'])[0],
                    f'continuation raised {tr["exc"]} on the recovered instance but '
                    f'{tu["exc"]} on the uninterrupted one', k, w, mode)
            # a search algorithm's own arithmetic failing (e.g. all-zero
            # weights) on a trajectory whose randomness is not recovered is
            # not something the property speaks about
            continue
        if tu['late'] != tr['late']:
            bad('C15.late-reward', 'auto-reward',
                f'late rewards differ: recovered {tr["late"]} vs uninterrupted {tu["late"]}',
                k, w, mode)
        _compare(tu['obs_late'], tr['obs_late'], bad, k, w, mode, U, 'after-late-rewards')
        if violations:
            break
        if kind in DETERMINISTIC_KINDS:
            if tu['proposals'] != tr['proposals']:
                if dropped:
                    # duplicates the wrapper dropped before the crash are not in
                    # the persisted history, so the inner generator resumes
                    # behind the uninterrupted one; everything after this point
                    # is a consequence (reported once per case, run goes on)
                    probes['continuation_after_dropped_duplicates'] = \
                        probes.get('continuation_after_dropped_duplicates', 0) + 1
                    if 'scripted' not in kind and \
                            not any(v.oracle == 'C15.continuation-dropped' for v in violations):
                        bad('C15.continuation-dropped', 'dropped-duplicates',
                            f'proposals after restart {tr["proposals"]} but the '
                            f'uninterrupted run makes {tu["proposals"]}', k, w, mode)
                    continue
                bad('C15.continuation', 'differs',
                    f'proposals after restart {tr["proposals"]} but the uninterrupted run '
                    f'makes {tu["proposals"]}', k, w, mode)
            _compare(tu['obs_end'], tr['obs_end'], bad, k, w, mode, U, 'after-continuation')
        else:
            if tu['phase'] != tr['phase']:
                # which phase an evolution is in (initial population vs.
                # evolving) is a function of the feedback count alone
                bad('C15.phase', 'initial-population-flags',
                    f'after restart the next proposals are initial-population='
                    f'{tr["phase"]} but the uninterrupted run gives {tu["phase"]}',
                    k, w, mode)
            for key in ('num_proposals', 'num_feedbacks'):
                if tu['obs_end'][key] != tr['obs_end'][key]:
                    bad('C15.counts', f'{key}-after-continuation',
                        f'{key}: recovered {tr["obs_end"][key]} vs uninterrupted '
                        f'{tu["obs_end"][key]}', k, w, mode)

    nontrivial = any(k >= 1 for k, w, m in case['crashes'])
    return {
        'violations': violations,
        'digest': digest([log, [v.sig for v in violations]]),
        'ntkey': digest([case['algo'], case['space'], case['n']]),
        'nontrivial': nontrivial and case['n'] >= 1,
        'faults': faults, 'probes': probes, 'steps': steps, 'sim_time': 0.0,
        'states': states, 'interleaving': None,
        'summary': {'algo': kind, 'n': case['n'], 'crash_points': len(case['crashes'])},
    }


def _compare(ou, orr, bad, k, w, mode, U, when, prefix=''):
    for key in ('num_proposals', 'num_feedbacks'):
        if ou[key] != orr[key]:
            if prefix and key == 'num_proposals' and ou.get('_dropped'):
                continue
            if prefix and key == 'num_feedbacks' and not ou.get('needs_feedback'):
                # an inner generator that takes no feedback is never fed back
                # by its wrapper; its feedback count carries no state
                continue
            bad('C15.counts', f'{prefix}{key}-{when}',
                f'{prefix}{key}: recovered instance has {orr[key]}, '
                f'uninterrupted one has {ou[key]}', k, w, mode)
    if 'population' in ou:
        if ou['population'] != orr.get('population'):
            bad('C15.population', f'{prefix}{when}',
                f'{prefix}population (numbers, fitness): recovered '
                f'{orr.get("population")} vs uninterrupted {ou["population"]}',
                k, w, mode)
    if 'dedup' in ou and ou['dedup'] != orr.get('dedup'):
        bad('C15.dedup-memory', f'{prefix}{when}',
            f'de-duplication memory (rewards seen per key): recovered {orr.get("dedup")} vs '
            f'uninterrupted {ou["dedup"]}', k, w, mode)
    if 'inner' in ou:
        iu, ir = dict(ou['inner']), dict(orr['inner'])
        # dropped duplicates are not persisted: the inner proposal count can
        # only be demanded when the wrapper dropped nothing
        if U.generator.num_proposals != U.num_proposals:
            iu['_dropped'] = True
        _compare(iu, ir, bad, k, w, mode, U.generator, when, prefix='inner.')


# ---------------------------------------------------------------------------
# driver interface


def shrink_candidates(case):
    if case['n'] > 0:
        c = dict(case)
        c['n'] = case['n'] - 1
        c['crashes'] = [x for x in case['crashes'] if x[0] <= c['n']]
        yield 'shorter-run', c
    if case.get('continue', 0) > 1:
        c = dict(case)
        c['continue'] = 1
        yield 'short-continuation', c


LIST_PARTS = [('crashes',)]


def budget(tier):
    if tier == 'quick':
        return {'runs': 560, 'wall': 75, 'chunk': 4, 'selftest': 6, 'minimise_s': 60,
                'canary_runs': 800, 'canary_wall': 90}
    return {'runs': 30000, 'wall': 900, 'chunk': 8, 'selftest': 16, 'minimise_s': 180,
            'canary_runs': 800, 'canary_wall': 90}


RULE = ('Each run: a seeded (algorithm configuration, DNASpec, run length N <= 8/12) and up '
        'to 30 crash scenarios (crash after k proposals, last w <= 2/3 rewards in flight, '
        'DNA metadata persisted before or after feedback). Per scenario the uninterrupted '
        'controller is rebuilt to the prefix, a fresh instance recovers from the JSON '
        'store, both are compared, then the late rewards arrive and both continue. '
        'Non-trivial: N >= 1 and at least one crash with k >= 1. Distinct: digest of '
        '(algorithm configuration, space, N).')
DISTINCT_MEASURE = 'distinct_states = distinct (algorithm kind, observable state at a crash point)'
COMPONENTS = {
    'real': ['DNAGenerator.recover/_replay', 'Sweeping', 'Random', 'Deduping', 'Evolution.recover',
             'regularized_evolution / hill_climb / nsga2 / neat', 'DNA to_json_str/from_json_str',
             'DNA.use_spec'],
    'stub': ['persistent trial store (list of JSON strings)', 'evaluation (pure function of DNA)',
             'Scripted inner generator (only for dedup_scripted kinds)'],
}
ASSUMPTIONS = [
    'rewards of a uninterrupted run are delivered in proposal order with a fixed lag w',
    'the restarted controller attaches the DNASpec to every DNA read from the store',
    'inner proposal counts of a Deduping wrapper are compared only when no duplicate was dropped '
    '(dropped proposals are not in the persisted history)',
]


# ---------------------------------------------------------------------------
# canaries


def _c_sweeping_replay_noop():
    from sim.canary import patch_source
    from pyglove.core.geno import sweeping
    patch_source(sweeping.Sweeping, '_replay', 'self._last_proposed_dna = dna', 'pass')


def _c_random_replay_no_redraw():
    from sim.canary import patch_source
    from pyglove.core.geno import random as grandom
    patch_source(grandom.Random, '_replay', 'if self.seed is not None:', 'if False:')


def _c_evolution_recover_skips_update():
    from sim.canary import patch_source
    from pyglove.ext.evolution import base
    patch_source(base.Evolution, 'recover', 'if self._population_update:', 'if False:')


def _c_recover_counts_pending():
    from sim.canary import patch_source
    patch_source(pg.DNAGenerator, 'recover', 'if reward is not None:', 'if True:')


def _c_dedup_caches_pending():
    from sim.canary import patch_source
    from pyglove.core.geno import deduping
    patch_source(deduping.Deduping, 'recover',
                 'if reward is not None or not self.needs_feedback:', 'if True:')


def _c_evolution_recover_phase():
    from sim.canary import patch_source
    from pyglove.ext.evolution import base
    patch_source(base.Evolution, 'recover',
                 'len(init_population) >= self._init_population_size', 'False')


def _c_dedup_inner_not_recovered():
    from sim.canary import patch_source
    from pyglove.core.geno import deduping
    patch_source(deduping.Deduping, 'recover', 'self.generator.recover(history)', 'pass')


CANARIES = {
    'sweeping_replay_noop': {'apply': _c_sweeping_replay_noop},
    'random_replay_no_redraw': {'apply': _c_random_replay_no_redraw},
    'evolution_recover_skips_update': {'apply': _c_evolution_recover_skips_update},
    'recover_counts_pending': {'apply': _c_recover_counts_pending},
    'dedup_caches_pending': {'apply': _c_dedup_caches_pending},
    'evolution_recover_phase': {'apply': _c_evolution_recover_phase},
    'dedup_inner_not_recovered': {'apply': _c_dedup_inner_not_recovered},
}
