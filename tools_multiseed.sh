#!/bin/bash
# usage: tools_multiseed.sh "<props>" "<seeds>"  -- runs quick checks under several VERIF_SEEDs
props=${1:-"C01 C02 C05 C15 C16 C17"}
seeds=${2:-"1 2 3 4 5 6 7 8"}
cd "$(dirname "$0")"
for s in $seeds; do
  for p in $props; do
    out=$(VERIF_SEED=$s timeout 1200 /venv/bin/python check.py $p --tier quick 2>&1)
    rc=$?
    echo "seed=$s prop=$p rc=$rc $(echo "$out" | grep -c VIOLATION) violations"
    if [ $rc -ne 0 ]; then echo "$out" | grep -v "^KNOWN" | tail -8; fi
  done
done
