#!/venv/bin/python
"""Entry point: /venv/bin/python /verif/check.py <ID> [--tier quick|thorough]
[--replay file].  pyglove is imported from /repo's working tree (editable
install), so every invocation tests the current sources."""
import os
import sys

ROOT = os.path.dirname(os.path.abspath(__file__))
sys.path.insert(0, ROOT)

from sim import driver  # noqa: E402

if __name__ == '__main__':
    sys.exit(driver.main())
