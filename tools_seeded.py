#!/venv/bin/python
"""Runs the registered quick checks against a seeded breaking change.

usage: tools_seeded.py <seeded-dir> [prop ...] [--seeds=0,1] [--thorough] [--worktree]
Applies <dir>/patch.diff to /repo (git apply), runs <dir>/demo.py (must fail), runs the
checks, then ALWAYS restores /repo (git checkout -- .).  Prints one line per check.
With --worktree nothing in /repo is touched: the patch is applied to a scratch worktree of
/repo's HEAD under /tmp, the checks import pyglove from there through PYTHONPATH (used while
a background sweep is reading /repo), and the worktree is removed afterwards.
"""
import json
import os
import subprocess
import sys
import time

REPO = '/repo'


def sh(cmd, **kw):
    return subprocess.run(cmd, shell=True, capture_output=True, text=True, **kw)


def main():
    args = [a for a in sys.argv[1:] if not a.startswith('--')]
    opts = [a for a in sys.argv[1:] if a.startswith('--')]
    d = os.path.abspath(args[0])
    meta = json.load(open(os.path.join(d, 'meta.json'))) if os.path.exists(os.path.join(d, 'meta.json')) else {}
    props = args[1:] or meta.get('checks_to_run') or [meta.get('property')]
    seeds = [0]
    for o in opts:
        if o.startswith('--seeds'):
            seeds = [int(x) for x in o.split('=')[1].split(',')]
    tier = 'thorough' if '--thorough' in opts else 'quick'
    global REPO
    scratch = None
    if '--worktree' in opts:
        scratch = f'/tmp/seeded_eval_{os.getpid()}'
        r = sh(f'git -C /repo worktree add -q --detach {scratch} HEAD')
        assert r.returncode == 0, r.stderr
        REPO = scratch
    else:
        assert sh('git -C /repo status --porcelain').stdout.strip() == '', '/repo is not clean'
    try:
        return _run(d, props, seeds, tier, scratch)
    finally:
        if scratch:
            sh(f'git -C /repo worktree remove --force {scratch}')


def _run(d, props, seeds, tier, scratch):
    env_prefix = (f'PYTHONPATH={REPO} ' if scratch else '') + 'VERIF_EVIDENCE_DIR=/tmp/seeded_evidence '
    demo = os.path.join(d, 'demo.py')
    r0 = sh(f'cd {REPO} && PYTHONPATH={REPO} timeout 300 /venv/bin/python {demo}')
    print(f'demo on clean tree: exit {r0.returncode}')
    ap = sh(f'git -C {REPO} apply {d}/patch.diff')
    if ap.returncode != 0:
        print('PATCH DOES NOT APPLY', ap.stderr)
        return 2
    results = {}
    try:
        r1 = sh(f'cd {REPO} && PYTHONPATH={REPO} timeout 300 /venv/bin/python {demo}')
        print(f'demo with the change: exit {r1.returncode}')
        for p in props:
            for s in seeds:
                t0 = time.time()
                r = sh(f'cd /verif && {env_prefix}VERIF_SEED={s} VERIF_SKIP_SELFTEST=1 timeout 1500 /venv/bin/python check.py {p} --tier {tier} --no-canaries')
                viol = [l for l in r.stdout.splitlines() if l.startswith('VIOLATION')]
                sigs = [l.strip() for l in r.stdout.splitlines() if l.startswith('  C')]
                print(f'check {p} seed={s}: exit {r.returncode}, {len(viol)} VIOLATION lines, '
                      f'{time.time() - t0:.0f}s')
                for l in sigs[:3]:
                    print('   ', l[:300])
                if r.returncode not in (0, 1):
                    print(r.stdout[-1500:], r.stderr[-1500:])
                results[f'{p}/{s}'] = {'exit': r.returncode, 'violations': len(viol),
                                       'signatures': [l.split(':')[0] for l in sigs[:5]]}
    finally:
        sh(f'git -C {REPO} checkout -- .')
        if not scratch:
            assert sh('git -C /repo status --porcelain').stdout.strip() == ''
    print(json.dumps({'demo_clean': r0.returncode, 'demo_mutant': r1.returncode, 'checks': results}))
    return 0


if __name__ == '__main__':
    sys.exit(main())
