"""Generates MANIFEST.json from the tables below (run: /venv/bin/python tools_manifest.py)."""
import json
import subprocess

PY = '/venv/bin/python'

CLAIMED = {
    'C16': dict(
        engine='search', design='§3.1',
        technique='deterministic simulation: seeded thread-schedule search (random walk / PCT / burst) over real worker threads with simulated locks, thread ids and clock; exactly-once ledgers checked on the recorded history',
        text='Seeded exploration of thread schedules of 2-8 real worker threads through pg.sample and the in-memory backend, with worker death/restart, end_loop, cold start and clock jumps injected; exactly-once ledgers and quiescence bookkeeping are checked on every run. Sampling, not enumeration: a clean batch is evidence, not proof.',
        note='Trusted: the scheduler owns every switch (real threads parked on events; locks, get_ident, time and datetime are simulated through module-attribute seams found by scanning pyglove modules). Pre-emption at line granularity plus read-modify-write windows inside tuning/geno/evolution modules; worker evaluation is a stub.'),
    'C15': dict(
        engine='search', design='§3.2',
        technique='deterministic simulation: controller crash at every proposal prefix with in-flight rewards and two persistence orders, restart from a JSON trial store, comparison with the uninterrupted controller, then bounded continuation once faults stop',
        text='Seeded exploration over (algorithm configuration, DNASpec, run length) x crash scenarios (crash after k proposals, last w rewards in flight, DNA metadata persisted before/after feedback). A fresh instance recovers from a JSON store and is compared with the uninterrupted one (counts, population with fitness, de-duplication memory through the inner generator and continuation); deterministic algorithms must continue identically. Sampling of configurations, near-enumeration of crash points per configuration.',
        note='Trusted: the uninterrupted controller can be rebuilt to any prefix because every algorithm is seeded; the trial store and evaluation are stubs; rewards arrive in proposal order with a fixed lag. One listed known finding (dropped duplicates under Deduping(Random)).'),
    'C17': dict(
        engine='scopes', design='§4.1',
        technique='deterministic simulation: seeded enter/exit/raise programs over all scoped-setting context managers on 1-4 real threads under a seeded scheduler; per-thread reference stack checked before and after every event, restoration checked at the end',
        text='Seeded exploration of well-nested scope programs (19 managers, all argument values, exception exits through 1..6 levels, explicit propagation) on 1-4 scheduled threads. Every getter and a behavioural probe per setting is compared with the thread\'s own reference stack around every event; after the last exit everything must equal the initial observation. Sampling, not enumeration.',
        note='Trusted: the reference nesting rules (validated against the unchanged tree on single-thread programs), the scheduler, real threading.local on real threads. Process-wide managers are driven from one thread only. Exceptions are raised between library calls, not asynchronously inside them.'),
    'C05': dict(
        engine='storage', design='§4.2',
        technique='deterministic simulation: seeded save/overwrite/append/load/rm histories on the real StdFileSystem over a simulated disk (EIO, ENOSPC with short writes, process crash with un-flushed buffers), the real in-memory file system and record sequences, checked operation by operation against a map model',
        text='Seeded exploration of persistence histories over 2-8 paths on both file systems and on record sequences, half of the runs with injected I/O errors, disk-full budgets and process crashes. Read-your-writes, flushed-prefix durability after a crash, error surfacing and recovery after a fault are checked against a map model; every loaded value must be pg.eq, same type, same hash and a well-formed tree. The value-space half of C05 (injectivity of the JSON encoding) is covered only on the payloads the workload uses.',
        note='Trusted: the simulated disk (kernel state + per-handle user buffer; process crash, not power loss), fresh registries per run. NaN payloads excluded. After an injected OSError the path is unknown until the next successful save.'),
    'C01': dict(
        engine='symtree', design='§2',
        technique='deterministic simulation: seeded operation-and-fault histories (rejected element in a batch, raising user handler, scoped flags that remove phases of a mutation) over forests of symbolic trees; structural invariant and identity diff evaluated on the real forest after every step',
        text='Seeded exploration of histories of ~45 kinds of public operations at arbitrary nodes of 1-3 trees, with interruption faults; after every step every reachable node must have the container that stores it as parent, the true key sequence as path, be found by looking that path up, appear once in the forest, and every node the step removed must no longer claim a live container as parent. No predictive model: the invariant is evaluated on the real forest.',
        note='Trusted: the walk over sym_items() and identity maps. One caller thread (pyglove documents no thread safety for shared trees). Cycles (inserting a root into its own subtree) excluded. After an injected handler exception re-indexing of that root is not asserted until its next successful notification.'),
    'C02': dict(
        engine='symtree', design='§2',
        technique='deterministic simulation (history engine): seeded operation histories on spec-less pg.List/pg.Dict, step-wise refinement against Python list/dict driven by the same operations (the interpreter is the reference model)',
        text='Seeded exploration of histories over the full list/dict API (positive/negative/out-of-range indices, slices with steps, in-place operators, update/setdefault/popitem, rebind) at arbitrary nesting depth; after every step the result, the exception class and every read-back (iteration, len, in, slicing, ==, keys order, to_json) must agree with a plain Python twin. No schedule or fault dimension exists for this property; what the technique contributes is the history search, the executable reference and minimised replays.',
        note='Trusted: CPython list/dict as the reference. Documented extensions are modelled (index past the end appends, Insertion inserts, nested plain containers become symbolic, no aliasing of one child in two slots). Batches whose outcome depends on rebind\'s own ordering rules (overlapping paths, several writes into one container) are not judged.'),
    'C03': dict(
        engine='symtree', design='§2',
        technique='deterministic simulation (history engine): seeded histories of valid and schema-invalid writes through every write path on typed objects/lists/dicts, with rejected-element-in-batch faults and allow_partial scopes; schema invariant judged by the bound specs after every step, failure atomicity of rejected writes',
        text='Seeded exploration of histories on typed trees (ranges, enums, nested dict/list/tuple/object/union specs, noneable/default/frozen, dynamic keys, min/max sizes). After every step, successful or failed, every typed node must hold only declared keys, values its own spec accepts and maps to itself (plus an independent check of primitive constraints), required fields unless explicitly partial, frozen values, list lengths within bounds; a rejected single write must leave the forest unchanged; class-level defaults must be unchanged at the end.',
        note='Trusted: the value specs as judges of stored values (cross-checked for Int/Str/Enum/Bool/Object from public attributes); the harness tracks which trees were explicitly made partial. Type checking ON as the property states. Batches may keep their earlier valid elements.'),
    'C07': dict(
        engine='symtree', design='§2',
        technique='deterministic simulation (history engine): clone/copy/deepcopy operations inside seeded mutation histories with interruption faults; clone fidelity at the clone step, non-interference of every non-targeted root (contents and identity map) after every later step',
        text='Seeded exploration: clones (deep, shallow, copy.copy, copy.deepcopy) are taken at arbitrary nodes in the middle of mutation histories and both copies keep being mutated. At the clone step: equality both ways, same class, same schema binding, same partial/sealed/accessor-writable flags on the cloned value, well-formed tree, no shared symbolic node, original untouched. After every later step: every root the step did not target keeps its contents and its identity map, and the forest stays well-formed.',
        note='Trusted: JSON-like snapshots through the symbolic read API and identity maps. Flags are compared on the cloned value itself (flags of nested nodes are derived). Type checking stays on (with it off typed containers hold anything and the library\'s own getters assert).'),
    'C08': dict(
        engine='symtree', design='§2',
        technique='deterministic simulation (history engine): seal/unseal/accessor-flag operations and 0-3 nested scoped overrides (True/False/None) around every mutator, executed against an unsealed deep copy as reference executor to decide which containers the call would change',
        text='Seeded exploration of histories mixing per-object flags, nested as_sealed / allow_writable_accessors scopes and every mutator of the list/dict/object API at the protected node and below it. The same call runs on an unprotected deep copy: if it would change a container that is treated as sealed (scope over flag, None defers) the real call must raise WritePermissionError and the tree must be unchanged; accessor-disabled values must refuse []=/attribute/del while rebind works; nothing unprotected may be refused; seal/unseal must reach every descendant.',
        note='Trusted: the precedence rule (scope over flag, None defers) and the reference copy. Three listed known findings, all about states or scopes the library handles inconsistently (mixed seal states, construction under allow_writable_accessors(False)); their signatures are tagged so other violations are still reported.'),
    'C09': dict(
        engine='symtree', design='§2',
        technique='deterministic simulation (history engine): seeded single and batched mutations on trees of recording objects and containers with callbacks, with raising-handler faults and notification scopes; the event log of every call is checked against the written locations and the pre/post snapshots, derived getters against a freshly built copy',
        text='Seeded exploration of mutation histories (accessor writes, list/dict mutators, update/setdefault/pop, rebind with many paths, notify_parents / skip_notification, notify_on_change scopes) on trees whose objects override _on_change and whose containers carry callbacks. For every call that returns normally with notifications on: every subscribing ancestor of a changed location gets exactly one event, nobody else gets one, descendants before ancestors, keys are the written locations relative to the receiver, old/new values match the snapshots; with notifications off or skipped nothing is delivered. After ordinary mutations is_partial / sym_missing / sym_nondefault / sym_puresymbolic / is_deterministic of every node equal those of a deep clone built through the constructors.',
        note='Trusted: written locations derived from the call\'s arguments; snapshots through the symbolic read API. A write of an equal value may or may not be listed. Batches whose elements shift positions (Insertion / deletion markers / overlapping paths) are judged only for exactly-once and order. A tree that saw a silent or rejected mutation is no longer judged for freshness in that run.'),
    'C14': dict(
        engine='search', design='§3.3',
        technique='deterministic simulation: seeded search trajectories (twin instances under different process-global random streams) with every shipped operator and random expressions of the composition algebra applied to the live population at every generation',
        text='Seeded exploration: a search algorithm (hand-composed Evolution with a generated reproduction expression, regularized evolution, hill climb, sweeping, random) is stepped as twin instances whose only difference is the process-global random stream; at every generation 3-7 operators / composed expressions are applied to the live population. Children must be valid for the space and node-aligned with it, selectors return members in the documented number, inputs and populations are unchanged (also when the operator raises), seeded operators and the seeded algorithm are independent of the global RNG.',
        note='Trusted: DNASpec.validate and a DNA rebuilt from raw numbers as references. Operators that raise on a population (unsupported shape, too few parents) count as inapplicable. Injected nondeterminism is the global random stream; evaluation is a stub.'),
    'C12': dict(
        engine='search', design='§3.3',
        technique='deterministic simulation: every DNA handed out along seeded search trajectories (proposals, operator outputs, clones) is compared node by node with a DNA rebuilt from its raw numbers; sampled views must agree and reconstruct it',
        text='Seeded exploration of chains of library operations that produce DNAs from DNAs (random generation, sweeping, mutators, recombinators, selectors, clone) on generated spaces: each node must be bound to the decision point of its own position, sampled to_dict views (3 per run from the 3x5x3 grid), JSON forms and lookups by decision point / name must equal those of the rebuilt DNA, and a view that reconstructs the rebuilt DNA must reconstruct the handed-out one. The losslessness of views as a pure function of (spec, DNA, options) is decided only on the DNAs these searches reach.',
        note='Trusted: DNA.from_numbers(to_numbers(), spec) as the aligned reference. Pure-input half of C12 (all view options on all specs) is outside this technique and only sampled.'),
}

NOT_APPLICABLE = {}

NA_REASONS = {
    'C04': 'pure function of (spec, spec, value): apply/is_compatible/extend have no state, schedule, clock or fault for a simulator to control',
    'C06': 'pure function of value pairs/triples (eq/ne/hash/lt laws); no history, schedule or fault dimension',
    'C10': 'pure functions of key sequences and values (parse/format, traversal, flatten/canonicalize, path-set algebra); quantifier ranges over inputs only',
    'C11': 'pure combinatorics of one spec (iterator vs counting formula vs validator); its decisive half is exhaustive enumeration up to a bound, i.e. model checking, not seeded simulation',
    'C13': 'pure function of (template, DNA); the only stateful aspect is not quantified over schedules or faults by the property',
    'C18': 'pure differential against the interpreter over (signature, call pattern); no schedule, clock, I/O or fault',
    'C19': 'pure function of (program text, permission set); only the scope-nesting clause has state and that is exercised inside the C17 simulation, not claimed here',
    'C20': 'pure function of (value, view options); per-thread view options are exercised inside the C17 simulation, not claimed here',
}


def main():
    props = [json.loads(l)['id'] for l in open('properties.jsonl')]
    checks = []
    for pid in props:
        if pid not in CLAIMED:
            continue
        c = CLAIMED[pid]
        checks.append({
            'property_id': pid,
            'quick_cmd': f'timeout 900 {PY} check.py {pid} --tier quick',
            'thorough_cmd': f'timeout 7200 {PY} check.py {pid} --tier thorough',
            'evidence_file': f'/verif/evidence/{pid}.json',
            'replay_cmd_template': f'{PY} check.py --replay {{path}}',
            'engine': c['engine'],
            'level_claimed': {'category': 'exploration', 'text': c['text'], 'design_ref': c['design']},
            'level_note': c['note'],
            'technique': c['technique'],
        })
    na = []
    for pid in props:
        if pid in CLAIMED:
            continue
        reason = NA_REASONS.get(pid) or NOT_APPLICABLE.get(pid) or \
            'claimed in DESIGN.md; check not yet built in this snapshot of /verif (deterministic simulation applies, machinery pending)'
        na.append({'property_id': pid, 'reason': reason})
    try:
        commits = subprocess.run(['git', '-C', '/repo', 'log', '--format=%h %s'],
                                 capture_output=True, text=True).stdout.splitlines()
    except Exception:
        commits = []
    man = {
        'version': 1,
        'setup_cmd': f'{PY} -c "import pyglove, sys; assert sys.version_info >= (3, 12)"',
        'hooks': {
            'guard': 'PYGLOVE_VERIF_SIM',
            'enable': 'no source hooks: all seams are installed at run time by the harness (module-attribute shims for threading/time/datetime/io/os, sys.monitoring events, pg.io.add_file_system); the guard name is reserved for future cooperative fault points',
            'baseline_off_cmd': 'cd /repo && /venv/bin/python -m pytest -ra -q -p no:cacheprovider --timeout=900 --continue-on-collection-errors',
            'source_commits': [],
            'add_only': True,
        },
        'engines': [
            {'name': 'search', 'path': 'engines/c16.py, engines/c15.py, engines/c14.py', 'serves_properties': ['C12', 'C14', 'C15', 'C16'],
             'kind_free_text': 'simulated tuning: real worker threads under a seeded scheduler, controller crash/recovery, operator pipelines along trajectories'},
            {'name': 'scopes', 'path': 'engines/c17.py', 'serves_properties': ['C17'],
             'kind_free_text': 'well-nested enter/exit/raise programs of all scoped settings on 1-4 scheduled threads against a per-thread reference stack'},
            {'name': 'storage', 'path': 'engines/c05.py', 'serves_properties': ['C05'],
             'kind_free_text': 'save/load/append histories with I/O faults and process crashes on a simulated disk against a map model'},
            {'name': 'symtree', 'path': 'engines/symtree.py', 'serves_properties': ['C01', 'C02', 'C03', 'C07', 'C08', 'C09'],
             'kind_free_text': 'operation-and-fault histories over symbolic forests, invariants after every step'},
        ],
        'checks': checks,
        'not_applicable': na,
        'notes': 'Technique: deterministic simulation with fault injection (DESIGN.md). Exit 0/1/2 = held / VIOLATION / HARNESS-ERROR. Known findings: KNOWN_FINDINGS.txt. fix: commits in /repo are listed there as `fixed:` lines.',
    }
    json.dump(man, open('MANIFEST.json', 'w'), indent=1)
    print('checks:', [c['property_id'] for c in checks])
    print('not_applicable:', [n['property_id'] for n in na])


if __name__ == '__main__':
    main()
